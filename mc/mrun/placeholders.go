//go:build verif

package mrun

import (
	"encoding/json"
	"fmt"
	"hash/fnv"
	"os"
	"sort"
)

// PlaceholderForms derives from one configuration the forms in which its string options are
// written as placeholders, the way an operator keeps values out of the config file:
//
//	set     every string option is {env.VERIF_PH_<h>_<n>} and the variable holds the original value
//	empty/k the k-th string option alone is a placeholder of a variable that is not set (resolves
//	        to the empty string when the module is provisioned)
//
// The variables travel with the spec (Spec.Env) and are exported by Load / LoadHandler, so a
// replay in a fresh process provisions the same thing.  Configurations without string options
// yield nothing.
func PlaceholderForms(s Spec) []Spec {
	var v any
	if json.Unmarshal(s.Config, &v) != nil {
		return nil
	}
	h := fnv.New32a()
	h.Write([]byte(s.String()))
	tag := fmt.Sprintf("VERIF_PH_%08x", h.Sum32())
	n := countStrings(v)
	if n == 0 {
		return nil
	}
	var out []Spec
	mk := func(form string, only int) {
		env := map[string]string{}
		i := 0
		w := rewriteStrings(v, func(orig string) string {
			k := i
			i++
			if only >= 0 && k != only {
				return orig
			}
			if only >= 0 {
				return "{env." + tag + "_UNSET}"
			}
			name := fmt.Sprintf("%s_%d", tag, k)
			env[name] = orig
			return "{env." + name + "}"
		})
		b, _ := json.Marshal(w)
		d := s
		d.Config = b
		d.Env = env
		d.Form = form
		out = append(out, d)
	}
	mk("set", -1)
	for k := 0; k < n; k++ {
		mk(fmt.Sprintf("empty/%d", k), k)
	}
	return out
}

func countStrings(v any) int {
	n := 0
	rewriteStrings(v, func(s string) string { n++; return s })
	return n
}

// rewriteStrings returns a copy of a decoded JSON value with f applied to every string that is a
// value (object keys stay), visiting object members in key order.
func rewriteStrings(v any, f func(string) string) any {
	switch x := v.(type) {
	case string:
		return f(x)
	case []any:
		o := make([]any, len(x))
		for i := range x {
			o[i] = rewriteStrings(x[i], f)
		}
		return o
	case map[string]any:
		ks := make([]string, 0, len(x))
		for k := range x {
			ks = append(ks, k)
		}
		sort.Strings(ks)
		o := map[string]any{}
		for _, k := range ks {
			o[k] = rewriteStrings(x[k], f)
		}
		return o
	}
	return v
}

func (s Spec) exportEnv() {
	for k, v := range s.Env {
		os.Setenv(k, v)
	}
}
