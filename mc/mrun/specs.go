//go:build verif

package mrun

import (
	"encoding/json"

	"verif/mc/enum"
)

func j(s string) json.RawMessage { return json.RawMessage(s) }

// OpenVPN static key material used in filtered configurations (256 hex-encoded bytes).
const ovpnKey = "00112233445566778899aabbccddeeff00112233445566778899aabbccddeeff00112233445566778899aabbccddeeff00112233445566778899aabbccddeeff" +
	"00112233445566778899aabbccddeeff00112233445566778899aabbccddeeff00112233445566778899aabbccddeeff00112233445566778899aabbccddeeff" +
	"00112233445566778899aabbccddeeff00112233445566778899aabbccddeeff00112233445566778899aabbccddeeff00112233445566778899aabbccddeeff" +
	"00112233445566778899aabbccddeeff00112233445566778899aabbccddeeff00112233445566778899aabbccddeeff00112233445566778899aabbccddeeff"

// Specs lists every shipped byte-inspecting matcher in its default and in filtered
// configurations, with the transport kinds it is meant for.
func Specs() []Spec {
	var out []Spec
	add := func(pkg, mod string, udpToo bool, cfgs ...string) {
		for _, c := range cfgs {
			out = append(out, Spec{Module: mod, Config: j(c), Pkg: pkg})
			if udpToo {
				out = append(out, Spec{Module: mod, Config: j(c), Pkg: pkg, UDP: true})
			}
		}
	}
	add("l4postgres", "postgres", false, `{}`)
	add("l4ssh", "ssh", false, `{}`)
	add("l4xmpp", "xmpp", false, `{}`)
	add("l4socks", "socks4", false, `{}`, `{"commands":["CONNECT"],"ports":[80,443],"networks":["10.0.0.0/8","192.168.1.1"]}`)
	add("l4socks", "socks5", false, `{}`, `{"auth_methods":[0]}`, `{"auth_methods":[2,128]}`)
	add("l4regexp", "regexp", false, `{"pattern":"^GET"}`, `{"pattern":"a.c$","count":3}`, `{"pattern":"^\\x16\\x03","count":9}`,
		`{"pattern":"^\\d+$"}`, `{"pattern":"^[a-c]+$","count":6}`, `{"pattern":"^[^\\n]*$"}`)
	add("l4proxyprotocol", "proxy_protocol", false, `{}`)
	add("l4rdp", "rdp", false, `{}`, `{"cookie_hash":"a0123"}`, `{"cookie_hash_regexp":"^[a-z]\\d+$"}`,
		`{"cookie_ips":["127.0.0.1/8"],"cookie_ports":[3389]}`, `{"custom_info":"anything can go here"}`, `{"custom_info_regexp":"^([A-Za-z0-9+/]{4})*$"}`)
	add("l4dns", "dns", true, `{}`, `{"allow":[{"name":"example.com."}],"default_deny":true}`,
		`{"deny":[{"type":"NULL"},{"class_regexp":"^(CH|HS)$"}]}`,
		`{"allow":[{"name_regexp":"^(|[-0-9a-z]+\\.)example\\.com\\.$","type":"A"}],"deny":[{"name":"evil.example.com."}],"prefer_allow":true,"default_deny":true}`)
	add("l4openvpn", "openvpn", true, `{}`, `{"modes":["plain"]}`, `{"modes":["auth"],"group_key":"`+ovpnKey+`","auth_digest":"sha256"}`,
		`{"modes":["crypt"],"group_key":"`+ovpnKey+`"}`, `{"modes":["crypt2"],"ignore_crypto":true,"ignore_timestamp":true}`, `{"ignore_timestamp":true}`, `{"modes":["auth"],"ignore_timestamp":true}`)
	// keyed configurations: the keys the repository's own tests sign their sample packets with
	// (read from the test file, so that the corpus packets authenticate and decrypt for real)
	ovpnDir := "/repo/modules/l4openvpn"
	if gk := enum.StringVarFromTests(ovpnDir, "groupKey12Hex"); gk != "" {
		add("l4openvpn", "openvpn", true,
			`{"ignore_timestamp":true,"group_key":"`+gk+`"}`,
			`{"ignore_timestamp":true,"group_key":"`+gk+`","modes":["auth"],"auth_digest":"sha256"}`,
			`{"ignore_timestamp":true,"group_key":"`+gk+`","group_key_direction":"inverse"}`)
	}
	if sk := enum.StringVarFromTests(ovpnDir, "serverKey56Base64"); sk != "" {
		add("l4openvpn", "openvpn", true, `{"ignore_timestamp":true,"server_key":"`+sk+`"}`)
	}
	if ck := enum.StringVarFromTests(ovpnDir, "clientKey56Base64"); ck != "" {
		add("l4openvpn", "openvpn", true, `{"ignore_timestamp":true,"client_keys":["`+ck+`"]}`)
	}
	add("l4winbox", "winbox", false, `{}`, `{"modes":["standard"]}`, `{"modes":["romon"],"username":"toms"}`, `{"username_regexp":"^[a-z]+$"}`)
	add("l4wireguard", "wireguard", true, `{}`, `{"zero":4294967295}`)
	add("l4tls", "tls", false, `{}`, `{"sni":["example.com"]}`, `{"alpn":["h2","http/1.1"]}`, `{"sni":["*.example.com"],"alpn":["h2"]}`)
	add("l4http", "http", false, `[]`, `[{"host":["example.com"]}]`, `[{"method":["POST"],"path":["/api/*"]}]`, `[{"header":{"X-Test":["1"]}},{"protocol":"http/2+"}]`)
	add("l4quic", "quic", true, `{}`)
	return out
}
