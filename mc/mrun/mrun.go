//go:build verif

// Package mrun evaluates shipped matchers on chosen byte prefixes through the real
// prefetch / freeze / Match / unfreeze path.
package mrun

import (
	"context"
	"encoding/json"
	"errors"
	"fmt"
	"net"
	"runtime/debug"
	"strings"

	"github.com/caddyserver/caddy/v2"
	"go.uber.org/zap"

	_ "github.com/mholt/caddy-l4"
	"github.com/mholt/caddy-l4/layer4"

	"verif/mc/hm"
)

var nop = zap.NewNop()

// Nop is the logger connections built by harnesses use.
var Nop = nop

// Spec names a matcher module and one configuration of it.
type Spec struct {
	Module string            `json:"module"` // e.g. "postgres"
	Config json.RawMessage   `json:"config"`
	UDP    bool              `json:"udp,omitempty"`  // UDP-like local/remote addresses
	Pkg    string            `json:"-"`              // source directory under /repo/modules
	Env    map[string]string `json:"env,omitempty"`  // environment the placeholders of Config refer to
	Form   string            `json:"form,omitempty"` // placeholder form (see PlaceholderForms)
}

func (s Spec) String() string {
	t := "tcp"
	if s.UDP {
		t = "udp"
	}
	if s.Form != "" {
		t += "/ph:" + s.Form
	}
	return fmt.Sprintf("%s%s/%s", s.Module, s.Config, t)
}

// Loaded is a provisioned matcher.
type Loaded struct {
	Spec   Spec
	M      layer4.ConnMatcher
	cancel context.CancelFunc
}

func Load(s Spec) (*Loaded, error) {
	s.exportEnv()
	ctx, cancel := caddy.NewContext(caddy.Context{Context: context.Background()})
	cfg := s.Config
	if len(cfg) == 0 {
		cfg = json.RawMessage("{}")
	}
	mod, err := ctx.LoadModuleByID("layer4.matchers."+s.Module, cfg)
	if err != nil {
		cancel()
		return nil, err
	}
	m, ok := mod.(layer4.ConnMatcher)
	if !ok {
		cancel()
		return nil, fmt.Errorf("%s is not a ConnMatcher", s.Module)
	}
	return &Loaded{Spec: s, M: m, cancel: cancel}, nil
}

func (l *Loaded) Close() { l.cancel() }

// Verdict of one evaluation.
type Verdict struct {
	V     string // yes | no | more | err | panic
	Err   string
	Stack string
}

func (v Verdict) String() string {
	if v.Err != "" {
		return v.V + "(" + v.Err + ")"
	}
	return v.V
}

// Conn builds a fresh layer4 connection whose client has sent exactly data (and nothing
// else, staying silent), with everything already prefetched through the real prefetch().
func Conn(data []byte, udp bool) (*layer4.Connection, *hm.SConn) {
	sc := hm.NewSConn(nil, data, false)
	sc.Menu = func(max int) []int { return []int{max} }
	if udp {
		sc.Local = &net.UDPAddr{IP: net.IPv4(10, 0, 0, 1), Port: 53}
		sc.Remote = &net.UDPAddr{IP: net.IPv4(192, 0, 2, 7), Port: 50000}
	}
	cx := layer4.WrapConnection(sc, make([]byte, 0, 2048), nop)
	for sc.Pos < len(data) {
		if err := layer4.VerifPrefetch(cx); err != nil {
			break
		}
	}
	return cx, sc
}

// ConnOn is Conn for a stream that travels inside an earlier connection (cx.Wrap, as the tls and
// proxy_protocol handlers do): the new connection shares the earlier one's context and replacer.
func ConnOn(outer *layer4.Connection, data []byte) *layer4.Connection {
	sc := hm.NewSConn(nil, data, false)
	sc.Menu = func(max int) []int { return []int{max} }
	cx := outer.Wrap(sc)
	for sc.Pos < len(data) {
		if err := layer4.VerifPrefetch(cx); err != nil {
			break
		}
	}
	return cx
}

// Eval evaluates the matcher once on cx exactly as MatcherSet.Match does (freeze, Match,
// unfreeze), converting a panic into a verdict.
func (l *Loaded) Eval(cx *layer4.Connection) (v Verdict) {
	defer func() {
		if r := recover(); r != nil {
			v = Verdict{V: "panic", Err: fmt.Sprint(r), Stack: topFrames(string(debug.Stack()))}
		}
	}()
	ok, err := layer4.MatcherSet{l.M}.Match(cx)
	switch {
	case errors.Is(err, layer4.ErrConsumedAllPrefetchedBytes):
		return Verdict{V: "more"}
	case err != nil:
		return Verdict{V: "err", Err: err.Error()}
	case ok:
		return Verdict{V: "yes"}
	}
	return Verdict{V: "no"}
}

// topFrames keeps the frames of a panic stack that lie in the repository.
func topFrames(st string) string {
	var out []string
	lines := strings.Split(st, "\n")
	for i := 0; i+1 < len(lines); i++ {
		if strings.Contains(lines[i+1], "/repo/") && !strings.HasPrefix(lines[i], "\t") {
			fn := lines[i]
			if k := strings.LastIndex(fn, "("); k > 0 {
				fn = fn[:k]
			}
			if k := strings.LastIndex(fn, "/"); k >= 0 {
				fn = fn[k+1:]
			}
			out = append(out, fn)
			if len(out) == 2 {
				break
			}
		}
	}
	return strings.Join(out, "<")
}

// PanicSite returns the innermost repository function of a panic verdict.
func (v Verdict) PanicSite() string {
	if i := strings.Index(v.Stack, "<"); i >= 0 {
		return v.Stack[:i]
	}
	return v.Stack
}
