//go:build verif

package mrun

import (
	"context"
	"encoding/json"
	"fmt"
	"io"
	"net"
	"runtime/debug"
	"strings"

	"github.com/caddyserver/caddy/v2"

	"github.com/mholt/caddy-l4/layer4"
	"verif/mc/hm"
)

// Handler specs have Module "handler/<name>": the protocol-parsing handlers that read a
// client-controlled header before anything else (proxy_protocol; TLS termination through the
// harness module h_tls, which is the real l4tls.Handler around a static certificate).
func HandlerSpecs() []Spec {
	return []Spec{
		{Module: "handler/proxy_protocol", Config: j(`{}`), Pkg: "l4proxyprotocol"},
		{Module: "handler/proxy_protocol", Config: j(`{"allow":["192.0.2.0/24","10.0.0.0/8"]}`), Pkg: "l4proxyprotocol"},
		{Module: "handler/proxy_protocol", Config: j(`{"allow":["203.0.113.0/24"]}`), Pkg: "l4proxyprotocol"},
		{Module: "handler/proxy_protocol", Config: j(`{}`), Pkg: "l4proxyprotocol", UDP: true},
	}
}

func IsHandler(s Spec) bool { return strings.HasPrefix(s.Module, "handler/") }

// LoadedHandler is a provisioned handler.
type LoadedHandler struct {
	Spec   Spec
	H      layer4.NextHandler
	cancel context.CancelFunc
}

func LoadHandler(s Spec) (*LoadedHandler, error) {
	s.exportEnv()
	ctx, cancel := caddy.NewContext(caddy.Context{Context: context.Background()})
	cfg := s.Config
	if len(cfg) == 0 {
		cfg = json.RawMessage("{}")
	}
	mod, err := ctx.LoadModuleByID("layer4.handlers."+strings.TrimPrefix(s.Module, "handler/"), cfg)
	if err != nil {
		cancel()
		return nil, err
	}
	h, ok := mod.(layer4.NextHandler)
	if !ok {
		cancel()
		return nil, fmt.Errorf("%s is not a handler", s.Module)
	}
	return &LoadedHandler{Spec: s, H: h, cancel: cancel}, nil
}

func (l *LoadedHandler) Close() { l.cancel() }

// Eval runs the handler on a fresh connection whose client sends exactly data and then
// half-closes; the next handler reads the rest of the stream.  A panic becomes a verdict.
func (l *LoadedHandler) Eval(data []byte) (v Verdict) {
	defer func() {
		if r := recover(); r != nil {
			v = Verdict{V: "panic", Err: fmt.Sprint(r), Stack: topFrames(string(debug.Stack()))}
		}
	}()
	sc := hm.NewSConn(nil, data, true)
	if l.Spec.UDP {
		sc.Local = &net.UDPAddr{IP: net.IPv4(10, 0, 0, 1), Port: 53}
		sc.Remote = &net.UDPAddr{IP: net.IPv4(192, 0, 2, 7), Port: 50000}
	}
	cx := layer4.WrapConnection(sc, make([]byte, 0, 2048), nop)
	reached := false
	err := l.H.Handle(cx, layer4.HandlerFunc(func(c *layer4.Connection) error {
		reached = true
		_ = c.RemoteAddr().String()
		_ = c.LocalAddr().String()
		io.Copy(io.Discard, io.LimitReader(c, 1<<16))
		return nil
	}))
	switch {
	case err != nil:
		return Verdict{V: "err", Err: err.Error()}
	case reached:
		return Verdict{V: "yes"}
	}
	return Verdict{V: "no"}
}
