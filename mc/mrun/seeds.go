//go:build verif

package mrun

import (
	"bytes"
	"crypto/tls"
	"encoding/binary"
	"net"
	"path/filepath"
	"sync"
	"time"

	"verif/mc/enum"
)

var (
	seedMu    sync.Mutex
	seedCache = map[string][][]byte{}
	// Extra lets protocol generators (C14) contribute well-formed messages per module.
	Extra = map[string]func() [][]byte{}
)

func pgStartup(version uint32, kv ...string) []byte {
	var body bytes.Buffer
	binary.Write(&body, binary.BigEndian, version)
	for _, s := range kv {
		body.WriteString(s)
		body.WriteByte(0)
	}
	body.WriteByte(0)
	var out bytes.Buffer
	binary.Write(&out, binary.BigEndian, uint32(body.Len()+4))
	out.Write(body.Bytes())
	return out.Bytes()
}

// winboxAuth builds a Winbox auth message from the wire description: chunks of at most 255
// bytes, the first tagged 0x06 and later ones 0xff, carrying username 0x00 key[32] parity.
// WinboxAuth is an independent encoder of the Winbox auth message (chunks of at most 255
// bytes: length, tag 0x06 / 0xff, data; body = user name, 0, 32-byte key, parity).
func WinboxAuth(user string, parity byte) []byte { return winboxAuth(user, parity) }

func winboxAuth(user string, parity byte) []byte {
	key := make([]byte, 32)
	for i := range key {
		key[i] = byte(0xA0 + i)
	}
	return WinboxAuthKey(user, key, parity)
}

// WinboxAuthKey is WinboxAuth with a given 32-byte public key (which may contain the
// delimiter value 0x00: only the FIRST zero byte of the body ends the user name).
func WinboxAuthKey(user string, key []byte, parity byte) []byte {
	body := append([]byte(user), 0)
	body = append(body, key...)
	body = append(body, parity)
	var out []byte
	for i := 0; len(body) > 0; i++ {
		n := len(body)
		if n > 255 {
			n = 255
		}
		tag := byte(0x06)
		if i > 0 {
			tag = 0xff
		}
		out = append(out, byte(n), tag)
		out = append(out, body[:n]...)
		body = body[n:]
	}
	return out
}

// ppV2Grid: PROXY v2 headers for every command x family/transport combination, with the
// address block the family calls for (and a TLV), lengths self-consistent, followed by a
// payload; plus v1 lines for every family keyword.
func ppV2Grid() [][]byte {
	sig := []byte{0x0D, 0x0A, 0x0D, 0x0A, 0x00, 0x0D, 0x0A, 0x51, 0x55, 0x49, 0x54, 0x0A}
	var out [][]byte
	for _, vc := range []byte{0x20, 0x21, 0x22, 0x10} {
		for _, fam := range []byte{0x00, 0x01, 0x02, 0x10, 0x11, 0x12, 0x20, 0x21, 0x22, 0x30, 0x31, 0x32, 0x40} {
			alen := map[byte]int{1: 12, 2: 36, 3: 216}[fam>>4]
			for _, extra := range []int{0, 7} { // 7 = one TLV (type 4 NOOP, length 4)
				body := make([]byte, alen)
				for i := range body {
					body[i] = byte(i + 1)
				}
				if extra > 0 {
					body = append(body, 0x04, 0x00, 0x04, 1, 2, 3, 4)
				}
				h := append(append([]byte(nil), sig...), vc, fam, byte(len(body)>>8), byte(len(body)))
				h = append(h, body...)
				out = append(out, append(h, "payload"...))
			}
		}
	}
	for _, l := range []string{"PROXY TCP4 192.0.2.1 192.0.2.2 1 2\r\n", "PROXY TCP6 2001:db8::1 2001:db8::2 65535 0\r\n", "PROXY UNKNOWN\r\n", "PROXY UNKNOWN ::1 ::2 1 2\r\n", "PROXY UDP4 1.2.3.4 5.6.7.8 1 2\r\n"} {
		out = append(out, []byte(l+"payload"))
	}
	return out
}

type captureConn struct {
	net.Conn
	buf bytes.Buffer
}

func (c *captureConn) Write(p []byte) (int, error)      { c.buf.Write(p); return len(p), nil }
func (c *captureConn) Read(p []byte) (int, error)       { return 0, net.ErrClosed }
func (c *captureConn) Close() error                     { return nil }
func (c *captureConn) SetDeadline(time.Time) error      { return nil }
func (c *captureConn) SetWriteDeadline(time.Time) error { return nil }
func (c *captureConn) SetReadDeadline(time.Time) error  { return nil }
func (c *captureConn) LocalAddr() net.Addr              { return &net.TCPAddr{} }
func (c *captureConn) RemoteAddr() net.Addr             { return &net.TCPAddr{} }

// ClientHello returns the first flight crypto/tls emits for cfg.
func ClientHello(cfg *tls.Config) []byte {
	cc := &captureConn{}
	c := tls.Client(cc, cfg)
	c.Handshake()
	return append([]byte(nil), cc.buf.Bytes()...)
}

func handSeeds(module string) [][]byte {
	switch module {
	case "postgres":
		return [][]byte{
			{0, 0, 0, 8, 0x04, 0xd2, 0x16, 0x2f}, // SSLRequest
			pgStartup(0x00030000, "user", "u"),
			pgStartup(0x00030000, "user", "alice", "database", "db", "application_name", "psql"),
			pgStartup(0x00030000),
			pgStartup(0x00020000, "user", "u"),
		}
	case "ssh":
		return [][]byte{[]byte("SSH-2.0-OpenSSH_9.6\r\n"), []byte("SSH-1.99-x\n"), []byte("SSH-")}
	case "xmpp":
		return [][]byte{
			[]byte("<?xml version='1.0'?><stream:stream to='example.com' xmlns='jabber:client' xmlns:stream='http://etherx.jabber.org/streams' version='1.0'>"),
			[]byte("<stream:stream xmlns='jabber:server' xmlns:stream='http://etherx.jabber.org/streams'>"),
		}
	case "tls", "quic":
		return [][]byte{
			ClientHello(&tls.Config{ServerName: "example.com", NextProtos: []string{"h2", "http/1.1"}, InsecureSkipVerify: true}),
			ClientHello(&tls.Config{ServerName: "a.example.com", MaxVersion: tls.VersionTLS12, InsecureSkipVerify: true}),
			ClientHello(&tls.Config{InsecureSkipVerify: true, MinVersion: tls.VersionTLS13}),
		}
	case "http":
		return [][]byte{
			[]byte("GET / HTTP/1.1\r\nHost: example.com\r\n\r\n"),
			[]byte("POST /api/x?y=1 HTTP/1.1\r\nHost: example.com\r\nX-Test: 1\r\nContent-Length: 0\r\n\r\n"),
			[]byte("GET / HTTP/1.0\n\n"),
			[]byte("PRI * HTTP/2.0\r\n\r\nSM\r\n\r\n\x00\x00\x00\x04\x00\x00\x00\x00\x00"),
		}
	case "handler/proxy_protocol":
		return append(handSeeds("proxy_protocol"), ppV2Grid()...)
	case "proxy_protocol":
		return [][]byte{
			[]byte("PROXY TCP4 192.168.0.1 192.168.0.11 56324 443\r\n"),
			[]byte("PROXY UNKNOWN\r\n"),
			append([]byte{0x0D, 0x0A, 0x0D, 0x0A, 0x00, 0x0D, 0x0A, 0x51, 0x55, 0x49, 0x54, 0x0A, 0x21, 0x11, 0x00, 0x0C}, 192, 168, 0, 1, 192, 168, 0, 11, 0xdc, 0x04, 0x01, 0xbb),
		}
	case "socks4":
		return [][]byte{{4, 1, 0, 80, 10, 0, 0, 1, 'u', 0}, {4, 2, 1, 187, 192, 168, 1, 1, 0}, {4, 1, 0, 80, 0, 0, 0, 1, 0, 'h', 0}}
	case "socks5":
		return [][]byte{{5, 1, 0}, {5, 2, 0, 2}, {5, 3, 0, 1, 2}, {5, 0}}
	case "winbox":
		return [][]byte{winboxAuth("admin", 1), winboxAuth("u+r", 0), winboxAuth(string(bytes.Repeat([]byte("a"), 221)), 1),
			winboxAuth(string(bytes.Repeat([]byte("b"), 230)), 0), winboxAuth(string(bytes.Repeat([]byte("c"), 222)), 1)}
	case "regexp":
		return [][]byte{[]byte("GET / HTTP/1.1\r\n"), []byte("abc"), {0x16, 0x03, 0x01, 0x00, 0x05, 1, 0, 0, 1, 0},
			// for patterns that are not prefix-closed (end anchors, negated classes): streams whose
			// proper prefixes satisfy the pattern while the first `count` bytes do not, and vice versa
			[]byte("12ab"), []byte("1234"), []byte("123"), []byte("abcabc"), []byte("abcxbc"), []byte("ab\ncd"), []byte("abcd")}
	}
	return nil
}

// Seeds returns the well-formed (and deliberately malformed) first messages known for a
// matcher: the literals of the module's own tests, hand-written messages for modules that
// ship without tests, and whatever the protocol generators registered in Extra.
func Seeds(s Spec) [][]byte {
	seedMu.Lock()
	defer seedMu.Unlock()
	if c, ok := seedCache[s.Module]; ok {
		return c
	}
	seen := map[string]bool{}
	var out [][]byte
	add := func(bs [][]byte) {
		for _, b := range bs {
			if !seen[string(b)] {
				seen[string(b)] = true
				out = append(out, b)
			}
		}
	}
	add(handSeeds(s.Module))
	add(enum.CorpusFromTests(filepath.Join("/repo/modules", s.Pkg)))
	if f := Extra[s.Module]; f != nil {
		add(f())
	}
	if s.Module == "rdp" {
		// length-consistent truncations: every TPKT-framed message of the corpus cut short by
		// 1..48 bytes with the TPKT length and the X.224 length indicator rewritten to agree
		// with what is left (a truncation the length checks alone cannot see)
		for _, m := range append([][]byte(nil), out...) {
			if len(m) < 12 || m[0] != 3 || m[1] != 0 || int(m[2])<<8|int(m[3]) != len(m) {
				continue
			}
			for cut := 1; cut <= 48 && len(m)-cut >= 11; cut++ {
				t := append([]byte(nil), m[:len(m)-cut]...)
				t[2], t[3] = byte(len(t)>>8), byte(len(t))
				t[4] = byte(len(t) - 5)
				add([][]byte{t})
			}
		}
	}
	seedCache[s.Module] = out
	return out
}
