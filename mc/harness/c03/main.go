//go:build verif

// C03: the proxy relays both directions byte-exactly, with half-close and cleanup.
// The real (rewritten) proxy handler runs behind a real prefetching route under the
// controlled scheduler; client and upstreams are harness threads on virtual connections.
package main

import (
	"context"
	"encoding/json"
	"fmt"
	"io"
	"net"
	"os"
	"strings"
	"sync"
	"time"

	"github.com/caddyserver/caddy/v2"
	"go.uber.org/zap"

	"github.com/mholt/caddy-l4/layer4"
	_ "github.com/mholt/caddy-l4/modules/l4proxy"

	"verif/mc/explore"
	"verif/mc/hm"
	"verif/mc/runner"
	"verif/mc/vnet"
	"verif/mc/vsched"
	"verif/mc/vtime"
)

type Scn struct {
	C2U    int    `json:"c2u"`    // client -> upstream payload bytes
	U2C    int    `json:"u2c"`    // each upstream -> client payload bytes
	Peers  int    `json:"peers"`  // peers of the one upstream (each gets the client's stream)
	Order  string `json:"order"`  // client-first | upstream-first | both | client-abort | upstream-abort
	Half   bool   `json:"half"`   // upstream transport offers CloseWrite
	Need   int    `json:"need"`   // bytes the matcher in front of the proxy needs (prefetched)
	Writes int    `json:"writes"` // the client's payload is sent in this many writes
	// Retry: an upstream with two peers stands in front (policy 'first'); its first peer accepts,
	// its second refuses, so the first attempt fails half-way and the connection is retried
	// against the upstream described above
	Retry bool `json:"retry,omitempty"`
	// Pre: a route in front of the proxy route matches on the first byte and its non-terminal
	// handler consumes this many bytes; the proxy then starts at the first unconsumed byte
	Pre int `json:"pre,omitempty"`
	// Pause: the client stays silent for this many seconds (longer than the matching timeout)
	// before its last write, long after matching is over
	Pause int `json:"pause,omitempty"`
	// UDPIn: the downstream is a UDP association; the client sends datagrams of these sizes (its
	// stream is their concatenation), the association ends by its idle timeout
	UDPIn []int `json:"udp_in,omitempty"`
	// Burst: the datagrams arrive back to back (more of them than the association's queue holds)
	Burst bool `json:"burst,omitempty"`
}

var chunk = layer4.VerifPrefetchChunkSize()

func payload(tag byte, n int) []byte {
	p := make([]byte, n)
	for i := range p {
		p[i] = tag + byte((i*7+i/251)%23)
	}
	return p
}

type upstreamRec struct {
	mu        sync.Mutex
	got       []byte
	sawEOF    bool
	readErr   string
	eofAt     int64
	clientEnd *vnet.Conn // the proxy's end of the upstream connection
}

type result struct {
	out          vsched.Outcome
	ups          []*upstreamRec
	clientGot    []byte
	clientEOF    bool
	clientErr    string
	clientEOFAt  int64
	handleDone   bool
	handleDoneAt int64
	clientFinAt  int64
	upFinAt      int64
	dials        []string
	server       *vnet.Conn
	openAtReturn []string
	halfDialled  []*vnet.Conn // connections opened by attempts that failed half-way
	pc           *vnet.PacketConn
}

func execute(x *explore.Exec, sc *Scn) *result {
	res := &result{}
	layer4.VerifResetPools()
	var trace func(string)
	if os.Getenv("VERIF_TRACE") != "" {
		trace = func(l string) { fmt.Printf("  | %8.3fs %s\n", float64(vsched.NowNS())/1e9, l) }
	}
	res.out = vsched.Run(x, vsched.Options{Horizon: 40000, Trace: trace}, func() {
		ctx, cancel := caddy.NewContext(caddy.Context{Context: context.Background()})
		defer cancel()
		nw := vnet.NewNet()
		vnet.Current = nw
		defer func() { vnet.Current = nil }()
		var dial []string
		for p := 0; p < sc.Peers; p++ {
			addr := fmt.Sprintf("10.0.0.%d:80", 10+p)
			dial = append(dial, addr)
			rec := &upstreamRec{}
			res.ups = append(res.ups, rec)
			p := p
			nw.Handle(addr, func(client net.Addr) (net.Conn, error) {
				cEnd, sEnd := vnet.Pipe(fmt.Sprintf("px-up%d", p), fmt.Sprintf("up%d", p), client, vnet.TCP("10.0.0.10", 80))
				cEnd.Menu, sEnd.Menu = hm.StdMenu(1), hm.StdMenu(1)
				cEnd.EOFWithData = true // ... and so may an upstream's
				rec.clientEnd = cEnd
				vsched.GoNamed(fmt.Sprintf("upstream%d", p), func() {
					// reader half
					done := make(chan struct{}, 1)
					vsched.GoNamed(fmt.Sprintf("upstream%d-r", p), func() {
						buf := make([]byte, 700)
						for {
							n, err := sEnd.Read(buf)
							rec.mu.Lock()
							rec.got = append(rec.got, buf[:n]...)
							if err != nil {
								rec.sawEOF = err == io.EOF
								rec.readErr = err.Error()
								rec.eofAt = vsched.NowNS()
								rec.mu.Unlock()
								vsched.Send(done, struct{}{})
								return
							}
							rec.mu.Unlock()
						}
					})
					if sc.Order == "upstream-first" || sc.Order == "both" || sc.Order == "client-abort" {
						// send and finish without waiting for the client
					} else {
						// client-first: keep sending only after the client's stream has ended
						if sc.Order == "client-first" {
							vsched.Recv(done)
						}
					}
					out := payload('A'+byte(p)*32, sc.U2C)
					if sc.Order == "upstream-abort" {
						sEnd.Write(out[:len(out)/2])
						sEnd.Abort()
						return
					}
					if len(out) > 0 {
						sEnd.Write(out)
					}
					res.upFinAt = vsched.NowNS()
					if sc.Half {
						sEnd.CloseWrite()
					} else {
						sEnd.Close()
					}
				})
				if sc.Half {
					return cEnd, nil
				}
				return cEnd.Plain(), nil
			})
		}
		px := map[string]any{"handler": "proxy", "upstreams": []map[string]any{{"dial": dial}}}
		if sc.Retry {
			nw.Handle("10.0.0.20:80", func(client net.Addr) (net.Conn, error) {
				cEnd, sEnd := vnet.Pipe("px-half", "half", client, vnet.TCP("10.0.0.20", 80))
				res.halfDialled = append(res.halfDialled, cEnd)
				vsched.GoNamed("half-open-peer", func() { io.Copy(io.Discard, sEnd); sEnd.Close() })
				return cEnd, nil
			})
			nw.Handle("10.0.0.21:80", func(net.Addr) (net.Conn, error) { return nil, vnet.ErrRefused })
			px["upstreams"] = []map[string]any{{"dial": []string{"10.0.0.20:80", "10.0.0.21:80"}}, {"dial": dial}}
			px["load_balancing"] = map[string]any{"selection": map[string]any{"policy": "first"}, "try_duration": "1s", "try_interval": "250ms"}
			px["health_checks"] = map[string]any{"passive": map[string]any{"fail_duration": "10s", "max_fails": 1}}
		}
		routes := []map[string]any{{
			"match":  []map[string]any{{"h_need": map[string]any{"id": "m", "k": sc.Need, "mode": "peek"}}},
			"handle": []map[string]any{px},
		}}
		if sc.Pre > 0 {
			routes = append([]map[string]any{{
				"match":  []map[string]any{{"h_need": map[string]any{"id": "pre", "k": 1, "mode": "peek"}}},
				"handle": []map[string]any{{"handler": "h_consume", "id": "pre", "n": sc.Pre}},
			}}, routes...)
		}
		srv := &layer4.Server{}
		if err := json.Unmarshal(hm.J(routes), &srv.Routes); err != nil {
			panic(err)
		}
		if err := srv.Provision(ctx, zap.NewNop()); err != nil {
			panic(err)
		}
		if len(sc.UDPIn) > 0 {
			pc := vnet.NewPacketConn(vnet.UDP("10.0.0.1", 443))
			res.pc = pc
			vsched.GoNamed("serve", func() { layer4.VerifServePacket(srv, pc) })
			out, off := payload('a', sc.C2U), 0
			for _, n := range sc.UDPIn {
				pc.Inject(vnet.Datagram{Data: out[off : off+n], Addr: hm.MustUDPAddr("192.0.2.9:40000")})
				off += n
				if !sc.Burst {
					vtime.Sleep(10 * time.Millisecond)
				}
			}
			vtime.Sleep(45 * time.Second) // the association's idle timeout ends the client's direction
			pc.Fail(os.ErrClosed)
			vtime.Sleep(time.Second)
			res.dials = append(res.dials, nw.Dials...)
			return
		}
		cl, sv := vnet.Pipe("client", "server", vnet.TCP("192.0.2.9", 40000), vnet.TCP("10.0.0.1", 443))
		cl.Menu, sv.Menu = hm.StdMenu(1), hm.StdMenu(1, chunk-1)
		sv.EOFWithData = true // the client's last bytes may arrive together with end-of-stream
		res.server = sv
		vsched.GoNamed("handle", func() {
			layer4.VerifHandle(srv, sv)
			res.handleDone = true
			res.handleDoneAt = vsched.NowNS()
			for i, u := range res.ups {
				if u.clientEnd != nil && !u.clientEnd.Closed() {
					res.openAtReturn = append(res.openAtReturn, fmt.Sprintf("upstream %d", i))
				}
			}
			for i, c := range res.halfDialled {
				if !c.Closed() {
					res.openAtReturn = append(res.openAtReturn, fmt.Sprintf("connection %d to the first peer of the upstream whose second peer refused (abandoned attempt)", i))
				}
			}
		})
		vsched.GoNamed("client-r", func() {
			buf := make([]byte, 900)
			for {
				n, err := cl.Read(buf)
				res.clientGot = append(res.clientGot, buf[:n]...)
				if err != nil {
					res.clientEOF = err == io.EOF
					res.clientErr = err.Error()
					res.clientEOFAt = vsched.NowNS()
					return
				}
			}
		})
		out := payload('a', sc.C2U)
		w := sc.Writes
		if w < 1 {
			w = 1
		}
		for i := 0; i < w; i++ {
			part := out[i*len(out)/w : (i+1)*len(out)/w]
			if sc.Pause > 0 && i == w-1 {
				vtime.Sleep(time.Duration(sc.Pause) * time.Second)
			}
			if len(part) > 0 {
				cl.Write(part)
			}
		}
		switch sc.Order {
		case "client-first", "both":
			res.clientFinAt = vsched.NowNS()
			cl.CloseWrite()
		case "upstream-first":
			// the client finishes only after it has seen the upstreams' end of stream
			vsched.Yield("await-client-eof", func() bool { return res.clientErr != "" })
			res.clientFinAt = vsched.NowNS()
			cl.CloseWrite()
		case "client-abort":
			cl.Abort()
		case "upstream-abort":
			vsched.Yield("await-client-eof", func() bool { return res.clientErr != "" })
			cl.CloseWrite()
		}
		vtime.Sleep(10 * time.Second)
		res.dials = append(res.dials, nw.Dials...)
	})
	return res
}

func check(x *explore.Exec, sc *Scn, r *result) {
	desc := func() string {
		var sb strings.Builder
		for i, u := range r.ups {
			fmt.Fprintf(&sb, "upstream%d got %d bytes eof=%v err=%q; ", i, len(u.got), u.sawEOF, u.readErr)
		}
		return fmt.Sprintf("scenario=%s %sclient got %d bytes eof=%v err=%q handleDone=%v dials=%v blocked=%v", hm.J(sc), sb.String(), len(r.clientGot), r.clientEOF, r.clientErr, r.handleDone, r.dials, r.out.Blocked)
	}
	for _, p := range r.out.Panics {
		x.Fail("panic:"+p[strings.LastIndex(p, " at ")+4:], "a thread panicked: %s; %s", p, desc())
	}
	if r.out.Horizon {
		x.Fail("horizon", "step horizon exceeded; %s", desc())
		return
	}
	if len(sc.UDPIn) > 0 {
		want := payload('a', sc.C2U)
		for i, u := range r.ups {
			if string(u.got) != string(want) {
				x.Fail("upstream-stream-not-exact", "UDP downstream, upstream %d: the client's datagrams %v carry %d bytes, the upstream received %d (first difference at %d); %s", i, sc.UDPIn, len(want), len(u.got), firstDiff(u.got, want), desc())
			}
			if !u.sawEOF && x.Used(explore.KTime) == 0 {
				x.Fail("upstream-no-eof", "UDP downstream, upstream %d did not observe end of stream after the association's idle timeout (%q); %s", i, u.readErr, desc())
			}
			if u.clientEnd != nil && !u.clientEnd.Closed() && x.Used(explore.KTime) == 0 {
				x.Fail("upstream-conn-left-open", "UDP downstream: the connection to upstream %d is still open after the association ended; %s", i, desc())
			}
		}
		var back []byte
		for _, d := range r.pc.Sent {
			back = append(back, d.Data...)
		}
		if wantBack := payload('A', sc.U2C); string(back) != string(wantBack) {
			x.Fail("client-stream-not-exact", "UDP downstream: the datagrams sent back to the client carry %d bytes, the upstream sent %d (first difference at %d); %s", len(back), len(wantBack), firstDiff(back, wantBack), desc())
		}
		x.Observe(len(r.ups[0].got), len(back))
		return
	}
	want := payload('a', sc.C2U)
	if sc.Pre > 0 {
		want = want[min(sc.Pre, len(want)):] // consumed by the route in front of the proxy
	}
	enough := sc.C2U >= sc.Need+sc.Pre // otherwise matching never completes: nothing to relay
	graceful := sc.Order == "client-first" || sc.Order == "upstream-first" || sc.Order == "both"
	diff := func(got, want []byte) string {
		n := min(len(got), len(want))
		i := 0
		for i < n && got[i] == want[i] {
			i++
		}
		return fmt.Sprintf("got %d bytes, want %d, first difference at %d", len(got), len(want), i)
	}
	if !enough {
		x.Observe("undecided")
		return
	}
	wantDials := sc.Peers
	if sc.Retry {
		wantDials += 2 // the abandoned attempt: first peer accepted, second refused
	}
	if len(r.dials) != wantDials {
		x.Fail("dial-count", "expected %d upstream connections, dialled %v; %s", wantDials, r.dials, desc())
	}
	for i, u := range r.ups {
		// an upstream whose transport cannot half-close and which finishes first has closed
		// its connection altogether: it can only have received a prefix
		if graceful && (sc.Half || sc.Order == "client-first") {
			if string(u.got) != string(want) {
				x.Fail("upstream-stream-not-exact", "upstream %d: %s; %s", i, diff(u.got, want), desc())
			}
			if sc.Half && !u.sawEOF {
				x.Fail("upstream-no-eof", "upstream %d did not observe end of stream after the client finished (%q); %s", i, u.readErr, desc())
			}
		} else if !strings.HasPrefix(string(want), string(u.got)) {
			x.Fail("upstream-stream-not-prefix", "upstream %d received bytes that are not a prefix of the client's stream: %s; %s", i, diff(u.got, want), desc())
		}
	}
	// client side: an order-preserving merge of the upstreams' streams
	// (without half-close the proxy has to close an upstream connection when the client
	// finishes, so what the upstream sends afterwards is lost by design)
	if graceful || sc.Order == "upstream-abort" {
		idx := make([]int, sc.Peers)
		ok := true
		ups := make([][]byte, sc.Peers)
		for p := range ups {
			ups[p] = payload('A'+byte(p)*32, sc.U2C)
			if sc.Order == "upstream-abort" {
				ups[p] = ups[p][:len(ups[p])/2]
			}
		}
		for _, b := range r.clientGot {
			matched := false
			for p := 0; p < sc.Peers; p++ {
				up := ups[p]
				if idx[p] < len(up) && up[idx[p]] == b {
					idx[p]++
					matched = true
					break
				}
			}
			if !matched {
				ok = false
				break
			}
		}
		// completeness needs half-close: a transport without it is closed by the proxy as soon
		// as the client's direction ends (by design), which cuts the other direction short
		if graceful && sc.Half {
			for p := 0; p < sc.Peers; p++ {
				if idx[p] != sc.U2C {
					ok = false
				}
			}
		}
		if !ok {
			x.Fail("client-stream-not-exact", "the client received %d bytes that are not the in-order merge of the upstreams' %d-byte streams (consumed %v); %s", len(r.clientGot), sc.U2C, idx, desc())
		}
		if graceful && sc.Half && !r.clientEOF {
			x.Fail("client-no-eof", "the client did not observe end of stream after all upstreams finished (%q); %s", r.clientErr, desc())
		}
	}
	if graceful || sc.Order == "upstream-abort" {
		if !r.handleDone {
			x.Fail("handler-never-returned", "the proxy handler did not return although both sides finished; blocked: %v; %s", r.out.Blocked, desc())
		}
	}
	if r.handleDone && len(r.openAtReturn) > 0 {
		x.Fail("upstream-conn-left-open", "when the handler returned these upstream connections were still open: %v; %s", r.openAtReturn, desc())
	}
	if r.handleDone {
		for _, b := range r.out.Blocked {
			if !strings.HasPrefix(b, "main:") && !strings.HasPrefix(b, "client") && !strings.HasPrefix(b, "upstream") {
				x.Fail("thread-left-behind:"+b[strings.Index(b, ":")+1:], "a goroutine started by the handler is still blocked after it returned: %s; %s", b, desc())
			}
		}
	}
	// half-close ordering: with the client finishing first, upstreams must see EOF while they
	// have not finished themselves (they only start sending after that EOF in this scenario)
	x.Observe(len(r.clientGot), r.clientEOF, r.handleDone, len(r.out.Blocked))
}

func firstDiff(a, b []byte) int {
	n := min(len(a), len(b))
	for i := 0; i < n; i++ {
		if a[i] != b[i] {
			return i
		}
	}
	return n
}

func scenarios(tier string, yield func(any) bool) {
	sizes := []int{0, 1, 3, chunk + 1}
	// UDP downstream: datagrams smaller than, equal to and larger than the buffers they are read
	// into (prefetch chunk, the proxy's copy buffer), alone and followed by another
	for _, in := range [][]int{{5}, {chunk}, {chunk + 1}, {3000}, {8192}, {8193}, {8800}, {3000, 5}, {5, 3000}, {8800, 8800}} {
		sum := 0
		for _, n := range in {
			sum += n
		}
		if !yield(&Scn{C2U: sum, U2C: 3, Peers: 1, Order: "upstream-first", Half: true, Need: 1, Writes: 1, UDPIn: in}) {
			return
		}
		if len(in) == 1 && in[0] == 5 {
			// ... and a burst of small datagrams longer than the association's queue
			if !yield(&Scn{C2U: 27, U2C: 3, Peers: 1, Order: "upstream-first", Half: true, Need: 1, Writes: 1, UDPIn: []int{3, 3, 3, 3, 3, 3, 3, 3, 3}, Burst: true}) {
				return
			}
		}
	}
	if !bigScenarios(yield) {
		return
	}
	// a route in front of the proxy route consumes the first 2 bytes (of a stream that was
	// prefetched further): the proxy starts at the first unconsumed byte
	for _, order := range []string{"client-first", "upstream-first"} {
		for _, need := range []int{1, 3} {
			for _, c2u := range []int{5, chunk + 1} {
				if !yield(&Scn{C2U: c2u, U2C: 1, Peers: 1, Order: order, Half: true, Need: need, Writes: 1, Pre: 2}) {
					return
				}
			}
		}
	}
	// a client that pauses for longer than the matching timeout in the middle of its stream,
	// behind one route and behind a consuming route followed by a second matching round
	for _, order := range []string{"client-first", "upstream-first"} {
		for _, pre := range []int{0, 2} {
			for _, half := range []bool{true, false} {
				if !yield(&Scn{C2U: 6, U2C: 1, Peers: 1, Order: order, Half: half, Need: 1, Writes: 3, Pre: pre, Pause: 5}) {
					return
				}
			}
		}
	}
	// a first attempt that fails half-way, then a retry
	for _, order := range []string{"client-first", "upstream-first"} {
		for _, half := range []bool{true, false} {
			if !yield(&Scn{C2U: 3, U2C: 1, Peers: 1, Order: order, Half: half, Need: 1, Writes: 1, Retry: true}) {
				return
			}
		}
	}
	for _, peers := range []int{1, 2} {
		for _, half := range []bool{true, false} {
			for _, order := range []string{"client-first", "upstream-first", "both", "client-abort", "upstream-abort"} {
				for _, need := range []int{1, 3} {
					for _, c2u := range sizes {
						for _, u2c := range sizes {
							for _, w := range []int{1, 2} {
								if w == 2 && c2u < 2 {
									continue
								}
								if tier != "thorough" && peers == 2 && (c2u > 3 || u2c > 3 || w == 2 || need == 3) {
									continue
								}
								if tier != "thorough" && !half && (c2u > 3 && u2c > 3) {
									continue
								}
								if !yield(&Scn{C2U: c2u, U2C: u2c, Peers: peers, Order: order, Half: half, Need: need, Writes: w}) {
									return
								}
							}
						}
					}
				}
			}
		}
	}
}

// bigScenarios: a client stream longer than the matching limit in front of a matcher that is
// decided only inside the last chunk below the limit, so that with any unaligned read the
// matching buffer holds more than MaxMatchingBytes when the proxy takes over.
func bigScenarios(yield func(any) bool) bool {
	M := layer4.MaxMatchingBytes
	for _, order := range []string{"client-first", "upstream-first"} {
		for _, w := range []int{1, 2} {
			if !yield(&Scn{C2U: M + chunk + 5, U2C: 1, Peers: 1, Order: order, Half: true, Need: M - 3, Writes: w}) {
				return false
			}
		}
	}
	return true
}

func bounds(tier string, sc *Scn) (explore.Bounds, int) {
	b := explore.DefaultBounds(1)
	b[explore.KSched] = 4
	b[explore.KRead] = 2
	b[explore.KTime] = 0
	tot := 2
	if sc.C2U > layer4.MaxMatchingBytes && tier != "thorough" {
		tot = 1
	}
	if sc.Peers == 1 && sc.Need == 1 && sc.Writes == 1 && ((sc.C2U == 3 && sc.U2C == 1) || (tier == "thorough" && sc.C2U <= 3 && sc.U2C <= 3)) {
		tot = 3 // the full budget goes to one small exchange per close order and transport
	}
	if tier == "thorough" {
		tot++
	}
	return b, tot
}

func main() {
	runner.Main(&runner.Harness{
		ID:    "C03",
		Level: "model_checking",
		Rule:  "client->upstream and upstream->client payloads {0,1,3,chunk+1 bytes, position-coded} in 1-2 writes x who finishes first {client half-closes, upstreams half-close, both, client aborts, upstream aborts mid-stream} x 1 or 2 peers per upstream (and a first attempt against a two-peer upstream whose second peer refuses, followed by a retry) x upstream transport with/without half-close x matcher in front of the proxy needing 1 or 3 bytes (so the stream starts in the prefetch buffer), plus a client stream of limit+chunk+5 bytes behind a matcher needing limit-3 bytes (the matching buffer overshoots the limit under any unaligned read); every interleaving of the handler's goroutines, client and upstream threads, every short read, the last bytes of either side alone or together with end-of-stream, within the joint deviation budget (delay bounding: every scheduling choice other than 'continue, else lowest thread id' costs one; 3 for the 3-byte/1-byte single-peer exchange of every close order and transport, 2 otherwise; +1 and a wider core in thorough); clients that stay silent for 5 s (longer than the matching timeout) before their last write, behind one route and behind a consuming route followed by a second matching round",
		Assumptions: []string{
			"payload sizes up to one prefetch chunk + 1, not MiB; kernel socket buffers are unbounded in the virtual network",
			"TLS-terminated downstream is covered for byte-exactness by C01, not here",
		},
		Scenarios: scenarios,
		Run: func(tier string, scAny any, rep *runner.Report) {
			sc := scAny.(*Scn)
			b, tot := bounds(tier, sc)
			ex := explore.New(b)
			ex.Total = tot
			ex.Stop = rep.Expired
			vsched.StateSink = rep.State
			ex.Explore(func(x *explore.Exec) { check(x, sc, execute(x, sc)) })
			rep.AddStats(sc, &ex.Stats)
			if os.Getenv("VERIF_STATS") != "" {
				fmt.Printf("%s tot=%d: execs=%d steps/exec=%d points/exec=%d devhist=%v\n", hm.J(sc), tot, ex.Stats.Executions, ex.Stats.Transitions/ex.Stats.Executions, ex.Stats.Points/ex.Stats.Executions, ex.Stats.DevHist[:5])
			}
		},
		DecodeScenario: func(raw json.RawMessage) (any, error) {
			sc := &Scn{}
			return sc, json.Unmarshal(raw, sc)
		},
		Replay: func(scAny any, choices []int) []explore.Failure {
			sc := scAny.(*Scn)
			b, _ := bounds("thorough", sc)
			ex := explore.New(b)
			return ex.RunOnce(choices, func(x *explore.Exec) { check(x, sc, execute(x, sc)) }).Failures
		},
		Budget: func(tier string) time.Duration {
			if tier == "thorough" {
				return 25 * time.Minute
			}
			return 120 * time.Second
		},
	})
}
