//go:build verif

// C15: Caddyfile and JSON configurations are equivalent, loadable and round-trip.
// Building blocks (matcher-set and handler fragments with the JSON their maintainers state
// for them) are extracted from the repository's own adaptation test vectors; configurations
// are composed from them exhaustively up to a bound (sets, routes, servers, named-set reuse,
// nesting via not/subroute/tee, matching_timeout, global-option and listener-wrapper forms),
// printed as Caddyfile and as expected JSON, and pushed through the real adapter.
package main

import (
	"encoding/json"
	"fmt"
	"os"
	"path/filepath"
	"reflect"
	"sort"
	"strings"
	"sync"
	"time"

	"github.com/caddyserver/caddy/v2"
	"github.com/caddyserver/caddy/v2/caddyconfig"
	_ "github.com/caddyserver/caddy/v2/modules/standard"

	_ "github.com/mholt/caddy-l4"
	"github.com/mholt/caddy-l4/layer4"

	"verif/mc/explore"
	"verif/mc/runner"
	"verif/mc/vrand"
)

// ---- tiny block parser for the (well-formatted) test vectors ---------------------------------

type node struct {
	head string
	kids []*node
	blk  bool
}

func parse(text string) *node {
	root := &node{blk: true}
	stack := []*node{root}
	for _, ln := range strings.Split(text, "\n") {
		l := strings.TrimSpace(ln)
		if l == "" {
			continue
		}
		top := stack[len(stack)-1]
		switch {
		case l == "}":
			if len(stack) > 1 {
				stack = stack[:len(stack)-1]
			}
		case l == "{" || strings.HasSuffix(l, " {"):
			n := &node{head: strings.TrimSpace(strings.TrimSuffix(l, "{")), blk: true}
			top.kids = append(top.kids, n)
			stack = append(stack, n)
		default:
			top.kids = append(top.kids, &node{head: l})
		}
	}
	return root
}

// render prints a node (with its block) as lines without indentation prefix.
func render(head string, n *node, indent string) []string {
	if !n.blk {
		return []string{indent + head}
	}
	h := strings.TrimSpace(head + " {")
	out := []string{indent + h}
	for _, k := range n.kids {
		out = append(out, render(k.head, k, indent+"\t")...)
	}
	return append(out, indent+"}")
}

type frag struct {
	Src  string          `json:"src"`
	Text []string        `json:"text"` // lines; the first line continues after "@name " (sets) or stands alone (handlers)
	JSON json.RawMessage `json:"json"`
	Perm string          `json:"perm,omitempty"`
	Deep bool            `json:"deep,omitempty"` // a triple reordering / three-option sequence: thorough tier only
	Gen  bool            `json:"gen,omitempty"`  // generated from the documented syntax (grammar.go), not taken from a test vector
}

var sets, handlers []frag

// The first nOrigS / nOrigH entries are the fragments as the test vectors print them; the rest
// are the same fragments with the option lines of one block reordered (Perm != "").
var nOrigS, nOrigH int

// permutable reports whether the lines of a block are options (order should not matter)
// rather than definitions and uses (@name ... / route @name) or a positional handler list.
func permutable(n *node) bool {
	if !n.blk || len(n.kids) < 2 {
		return false
	}
	for _, k := range n.kids {
		if strings.HasPrefix(k.head, "@") || strings.HasPrefix(k.head, "route") {
			return false
		}
	}
	return true
}

// reorderings of k option lines: every ordered pair moved to the front (every relative order
// of two options, each also directly adjacent), the reversal, and in the thorough tier every
// ordered triple moved to the front.
func reorderings(k int) (out [][]int, deep []bool) {
	front := func(f ...int) {
		used := map[int]bool{}
		p := append([]int(nil), f...)
		for _, i := range f {
			used[i] = true
		}
		for i := 0; i < k; i++ {
			if !used[i] {
				p = append(p, i)
			}
		}
		ident := true
		for i, v := range p {
			ident = ident && i == v
		}
		if !ident {
			out = append(out, p)
			deep = append(deep, len(f) > 2)
		}
	}
	for a := 0; a < k; a++ {
		for b := 0; b < k; b++ {
			if a == b {
				continue
			}
			front(a, b)
			for c := 0; c < k && k <= 12; c++ {
				if c != a && c != b {
					front(a, b, c)
				}
			}
		}
	}
	rev := make([]int, k)
	for i := range rev {
		rev[i] = k - 1 - i
	}
	if k > 2 {
		out = append(out, rev)
		deep = append(deep, false)
	}
	return out, deep
}

func blocksOf(n *node, out *[]*node) {
	if permutable(n) {
		*out = append(*out, n)
	}
	for _, k := range n.kids {
		blocksOf(k, out)
	}
}

func derive(fr frag) []frag {
	var out []frag
	seen := map[string]bool{strings.Join(fr.Text, "\n"): true}
	tree := parse(strings.Join(fr.Text, "\n"))
	if len(tree.kids) != 1 {
		return nil
	}
	var blocks []*node
	blocksOf(tree.kids[0], &blocks)
	for bi, b := range blocks {
		orig := b.kids
		ps, deep := reorderings(len(orig))
		for pi, p := range ps {
			kids := make([]*node, len(orig))
			for i, j := range p {
				kids[i] = orig[j]
			}
			b.kids = kids
			lines := render(tree.kids[0].head, tree.kids[0], "")
			key := strings.Join(lines, "\n")
			if !seen[key] {
				seen[key] = true
				out = append(out, frag{Src: fr.Src, Text: lines, JSON: fr.JSON, Perm: fmt.Sprintf("block %d order %v", bi, p), Deep: deep[pi]})
			}
		}
		b.kids = orig
	}
	return out
}

// first indexes of the fragments generated from the documented syntax
var genS0, genH0 int

func deriveAll() {
	nOrigS, nOrigH = len(sets), len(handlers)
	for i := 0; i < nOrigS; i++ {
		sets = append(sets, derive(sets[i])...)
	}
	for i := 0; i < nOrigH; i++ {
		handlers = append(handlers, derive(handlers[i])...)
	}
	genS0, genH0 = len(sets), len(handlers)
	gs, gh := genFragments()
	sets = append(sets, gs...)
	handlers = append(handlers, gh...)
}

// canon sorts every array, so that two configurations compare equal when they differ only in
// the order in which list-valued options were written.
func canon(v any) any {
	switch t := v.(type) {
	case map[string]any:
		m := map[string]any{}
		for k, x := range t {
			m[k] = canon(x)
		}
		return m
	case []any:
		out := make([]any, len(t))
		for i, x := range t {
			out[i] = canon(x)
		}
		sort.Slice(out, func(i, j int) bool {
			a, _ := json.Marshal(out[i])
			b, _ := json.Marshal(out[j])
			return string(a) < string(b)
		})
		return out
	}
	return v
}

func loadFragments() {
	files, _ := filepath.Glob("/repo/integration/caddyfile_adapt/gd_*.caddytest")
	sort.Strings(files)
	seenS, seenH := map[string]bool{}, map[string]bool{}
	for _, f := range files {
		b, err := os.ReadFile(f)
		if err != nil {
			continue
		}
		parts := strings.SplitN(string(b), "----------", 2)
		if len(parts) != 2 {
			continue
		}
		var cfg struct {
			Apps struct {
				Layer4 struct {
					Servers map[string]struct {
						Routes []struct {
							Match  []json.RawMessage `json:"match"`
							Handle []json.RawMessage `json:"handle"`
						} `json:"routes"`
					} `json:"servers"`
				} `json:"layer4"`
			} `json:"apps"`
		}
		if json.Unmarshal([]byte(parts[1]), &cfg) != nil {
			continue
		}
		tree := parse(parts[0])
		if len(tree.kids) == 0 || len(tree.kids[0].kids) == 0 {
			continue
		}
		l4 := tree.kids[0].kids[0]
		if l4.head != "layer4" {
			continue
		}
		for si, srv := range l4.kids {
			js, ok := cfg.Apps.Layer4.Servers[fmt.Sprintf("srv%d", si)]
			if !ok {
				continue
			}
			setNodes := map[string]*node{}
			ri := 0
			for _, k := range srv.kids {
				toks := strings.Fields(k.head)
				if len(toks) == 0 {
					continue
				}
				switch {
				case strings.HasPrefix(toks[0], "@"):
					setNodes[toks[0]] = k
				case toks[0] == "route":
					if ri >= len(js.Routes) {
						break
					}
					r := js.Routes[ri]
					ri++
					for mi, name := range toks[1:] {
						sn := setNodes[name]
						if sn == nil || mi >= len(r.Match) {
							continue
						}
						rest := strings.TrimSpace(strings.TrimPrefix(sn.head, name))
						lines := render(rest, sn, "")
						key := strings.Join(lines, "\n")
						if !seenS[key] {
							seenS[key] = true
							sets = append(sets, frag{Src: filepath.Base(f), Text: lines, JSON: r.Match[mi]})
						}
					}
					for hi, hk := range k.kids {
						if hi >= len(r.Handle) {
							break
						}
						lines := render(hk.head, hk, "")
						key := strings.Join(lines, "\n")
						if !seenH[key] {
							seenH[key] = true
							handlers = append(handlers, frag{Src: filepath.Base(f), Text: lines, JSON: r.Handle[hi]})
						}
					}
				}
			}
		}
	}
}

// ---- configuration AST -----------------------------------------------------------------------------

type SetRef struct {
	S   int  `json:"s"`   // index into sets
	Not bool `json:"not"` // wrapped in 'not'
}

type HRef struct {
	H    int    `json:"h"`              // index into handlers
	Wrap string `json:"wrap,omitempty"` // "" | tee | subroute
	WS   int    `json:"ws,omitempty"`   // subroute: set index guarding the nested route (-1 none)
}

type RouteSpec struct {
	Sets []int  `json:"sets"` // indexes into the server's named sets
	H    []HRef `json:"h"`
}

type ServerSpec struct {
	Listen  []string    `json:"listen"`
	Timeout bool        `json:"timeout"`
	Named   []SetRef    `json:"named"`
	Routes  []RouteSpec `json:"routes"`
}

type Scn struct {
	Form    string       `json:"form"` // global | wrapper | split (like global, one global layer4 block per server)
	Servers []ServerSpec `json:"servers"`
}

func setText(r SetRef) []string {
	t := append([]string(nil), sets[r.S].Text...)
	if r.Not {
		t[0] = "not " + t[0]
	}
	return t
}

func setJSON(r SetRef) any {
	var v any
	json.Unmarshal(sets[r.S].JSON, &v)
	if r.Not {
		return map[string]any{"not": []any{v}}
	}
	return v
}

func indentAll(lines []string, ind string) []string {
	out := make([]string, len(lines))
	for i, l := range lines {
		out[i] = ind + l
	}
	return out
}

func hText(h HRef) []string {
	base := handlers[h.H].Text
	switch h.Wrap {
	case "tee":
		return append(append([]string{"tee {"}, indentAll(base, "\t")...), "}")
	case "subroute":
		out := []string{"subroute {"}
		route := "route {"
		if h.WS >= 0 {
			st := setText(SetRef{S: h.WS})
			st[0] = "@inner " + st[0]
			out = append(out, indentAll(st, "\t")...)
			route = "route @inner {"
		}
		out = append(out, "\t"+route)
		out = append(out, indentAll(base, "\t\t")...)
		return append(out, "\t}", "}")
	}
	return base
}

func hJSON(h HRef) any {
	var v any
	json.Unmarshal(handlers[h.H].JSON, &v)
	switch h.Wrap {
	case "tee":
		return map[string]any{"handler": "tee", "branch": []any{v}}
	case "subroute":
		r := map[string]any{"handle": []any{v}}
		if h.WS >= 0 {
			r["match"] = []any{setJSON(SetRef{S: h.WS})}
		}
		return map[string]any{"handler": "subroute", "routes": []any{r}}
	}
	return v
}

func serverBody(s ServerSpec, ind string) []string {
	var out []string
	if s.Timeout {
		out = append(out, ind+"matching_timeout 5s")
	}
	for i, n := range s.Named {
		t := setText(n)
		t[0] = fmt.Sprintf("@s%d %s", i, t[0])
		out = append(out, indentAll(t, ind)...)
	}
	for _, r := range s.Routes {
		head := "route"
		for _, si := range r.Sets {
			head += fmt.Sprintf(" @s%d", si)
		}
		out = append(out, ind+head+" {")
		for _, h := range r.H {
			out = append(out, indentAll(hText(h), ind+"\t")...)
		}
		out = append(out, ind+"}")
	}
	return out
}

func serverJSON(s ServerSpec, withListen bool) map[string]any {
	m := map[string]any{}
	if withListen {
		l := []any{}
		for _, a := range s.Listen {
			l = append(l, a)
		}
		m["listen"] = l
	}
	if s.Timeout {
		m["matching_timeout"] = float64(5 * time.Second)
	}
	var routes []any
	for _, r := range s.Routes {
		rj := map[string]any{}
		if len(r.Sets) > 0 {
			var ms []any
			for _, si := range r.Sets {
				ms = append(ms, setJSON(s.Named[si]))
			}
			rj["match"] = ms
		}
		if len(r.H) > 0 {
			var hs []any
			for _, h := range r.H {
				hs = append(hs, hJSON(h))
			}
			rj["handle"] = hs
		}
		routes = append(routes, rj)
	}
	if len(routes) > 0 {
		m["routes"] = routes
	}
	return m
}

func (sc *Scn) Caddyfile() string {
	var out []string
	if sc.Form == "wrapper" {
		out = append(out, "{", "\tservers {", "\t\tlistener_wrappers {", "\t\t\tlayer4 {")
		out = append(out, serverBody(sc.Servers[0], "\t\t\t\t")...)
		out = append(out, "\t\t\t}", "\t\t\ttls", "\t\t}", "\t}", "}", ":443 {", "\trespond 200 \"OK\"", "}")
		return strings.Join(out, "\n") + "\n"
	}
	out = append(out, "{", "\tlayer4 {")
	for i, s := range sc.Servers {
		if sc.Form == "split" && i > 0 {
			// several global layer4 blocks are combined: each server in a block of its own
			out = append(out, "\t}", "\tlayer4 {")
		}
		out = append(out, "\t\t"+strings.Join(s.Listen, " ")+" {")
		out = append(out, serverBody(s, "\t\t\t")...)
		out = append(out, "\t\t}")
	}
	out = append(out, "\t}", "}")
	return strings.Join(out, "\n") + "\n"
}

// expected returns the JSON value the adapted configuration must contain and the path to it.
func (sc *Scn) expected() (path []string, want any) {
	if sc.Form == "wrapper" {
		w := serverJSON(sc.Servers[0], false)
		w["wrapper"] = "layer4"
		return []string{"apps", "http", "servers", "srv0", "listener_wrappers", "0"}, w
	}
	srvs := map[string]any{}
	for i, s := range sc.Servers {
		srvs[fmt.Sprintf("srv%d", i)] = serverJSON(s, true)
	}
	return []string{"apps", "layer4"}, map[string]any{"servers": srvs}
}

func dig(v any, path []string) any {
	for _, p := range path {
		switch t := v.(type) {
		case map[string]any:
			v = t[p]
		case []any:
			var i int
			fmt.Sscanf(p, "%d", &i)
			if i >= len(t) {
				return nil
			}
			v = t[i]
		default:
			return nil
		}
	}
	return v
}

// ---- one case -----------------------------------------------------------------------------------------

var probeOnce sync.Once

var validatable = map[string]bool{} // fragment sources whose own full test vector provisions in this sandbox

func judge(sc *Scn, fail func(sig, msg string)) {
	cf := sc.Caddyfile()
	adapter := caddyconfig.GetAdapter("caddyfile")
	out, _, err := adapter.Adapt([]byte(cf), map[string]any{"filename": "Caddyfile"})
	reordered := usesReordered(sc)
	if err != nil && reordered {
		// a parser may insist on an order (it then says so); that is not a disagreement between
		// the two forms
		reorderRejected++
		return
	}
	if err != nil {
		fail("adapt-error", fmt.Sprintf("a Caddyfile written according to the documented syntax does not adapt: %v\n%s", err, cf))
		return
	}
	// the order in which the repository's code ranges over its maps is the harness's to decide
	// (overlay feature maprange): ascending and descending key order must adapt to the same JSON
	for mode := 1; mode <= 2; mode++ {
		vrand.MapMode = mode
		ordered, _, err2 := adapter.Adapt([]byte(cf), map[string]any{"filename": "Caddyfile"})
		vrand.MapMode = 0
		if err2 != nil || string(ordered) != string(out) {
			fail("adapt-depends-on-map-order", fmt.Sprintf("the adapted JSON depends on the order in which a map is iterated (here: keys %s)\n%s\n%s\n%s", map[int]string{1: "ascending", 2: "descending"}[mode], cf, out, ordered))
			return
		}
	}
	// ... and what is not under the harness's control is repeated (Go starts the iteration of a
	// small map at one of 8 offsets: an order that depends on it differs between two runs with
	// probability ~0.2, so 40 repetitions miss it once in 200)
	for i := 0; i < 40; i++ {
		again, _, err2 := adapter.Adapt([]byte(cf), map[string]any{"filename": "Caddyfile"})
		if err2 != nil || string(again) != string(out) {
			fail("adapt-not-deterministic", fmt.Sprintf("adapting the same Caddyfile twice gives different JSON\n%s\n%s\n%s", cf, out, again))
			return
		}
	}
	var got any
	json.Unmarshal(out, &got)
	path, want := sc.expected()
	sub := dig(got, path)
	if reordered {
		if !reflect.DeepEqual(canon(sub), canon(want)) {
			gb, _ := json.Marshal(sub)
			wb, _ := json.Marshal(want)
			fail("option-order-changes-json", fmt.Sprintf("the Caddyfile (options of one block reordered: %s)\n%sadapts (at %v) to\n%s\nbut the same options in the test vector's order state\n%s", reorderNote(sc), cf, path, gb, wb))
		}
	} else if !reflect.DeepEqual(sub, want) {
		gb, _ := json.Marshal(sub)
		wb, _ := json.Marshal(want)
		fail("adapted-json-differs:"+classOf(sc), fmt.Sprintf("the Caddyfile\n%sadapts (at %v) to\n%s\nbut states\n%s", cf, path, gb, wb))
	}
	// round trip of the layer4 part through the Go structures
	if sc.Form != "wrapper" {
		raw, _ := json.Marshal(sub)
		var app layer4.App
		if err := json.Unmarshal(raw, &app); err != nil {
			fail("json-does-not-load", fmt.Sprintf("the adapted layer4 configuration does not unmarshal: %v\n%s", err, raw))
		} else {
			back, _ := json.Marshal(&app)
			var a, b any
			json.Unmarshal(raw, &a)
			json.Unmarshal(back, &b)
			if !reflect.DeepEqual(a, b) {
				fail("json-round-trip-differs", fmt.Sprintf("loading and re-serialising the adapted configuration changes it:\n%s\n%s", raw, back))
			}
		}
	}
	// it provisions (only for building blocks whose own test vector provisions here: others
	// need files or network names this sandbox does not have)
	if allValidatable(sc) {
		var cfg caddy.Config
		if err := json.Unmarshal(out, &cfg); err == nil {
			if err := caddy.Validate(&cfg); err != nil {
				fail("does-not-provision", fmt.Sprintf("the adapted configuration does not load/provision: %v\n%s", err, cf))
			}
		}
	}
}

var reorderRejected int64

func usesReordered(sc *Scn) bool { return reorderNote(sc) != "" }

func reorderNote(sc *Scn) string {
	for _, s := range sc.Servers {
		for _, n := range s.Named {
			if sets[n.S].Perm != "" {
				return "matcher set, " + sets[n.S].Perm
			}
		}
		for _, r := range s.Routes {
			for _, h := range r.H {
				if handlers[h.H].Perm != "" {
					return "handler, " + handlers[h.H].Perm
				}
			}
		}
	}
	return ""
}

func classOf(sc *Scn) string {
	c := sc.Form
	for _, s := range sc.Servers {
		for _, n := range s.Named {
			if n.Not {
				c += "+not"
			}
		}
		for _, r := range s.Routes {
			for _, h := range r.H {
				if h.Wrap != "" {
					c += "+" + h.Wrap
				}
			}
		}
	}
	return c
}

func allValidatable(sc *Scn) bool {
	for _, s := range sc.Servers {
		for _, n := range s.Named {
			if !validatable[sets[n.S].Src] {
				return false
			}
		}
		for _, r := range s.Routes {
			for _, h := range r.H {
				if !validatable[handlers[h.H].Src] || (h.Wrap == "subroute" && h.WS >= 0 && !validatable[sets[h.WS].Src]) {
					return false
				}
			}
		}
	}
	return true
}

func probeValidatable() {
	files, _ := filepath.Glob("/repo/integration/caddyfile_adapt/gd_*.caddytest")
	for _, f := range files {
		b, _ := os.ReadFile(f)
		parts := strings.SplitN(string(b), "----------", 2)
		if len(parts) != 2 {
			continue
		}
		var cfg caddy.Config
		if json.Unmarshal([]byte(parts[1]), &cfg) == nil && caddy.Validate(&cfg) == nil {
			validatable[filepath.Base(f)] = true
		}
	}
}

// ---- scenario space ----------------------------------------------------------------------------------

func scenarios(tier string, yield func(any) bool) {
	addr := []string{":7000"}
	one := func(named []SetRef, routes []RouteSpec, form string, timeout bool) bool {
		return yield(&Scn{Form: form, Servers: []ServerSpec{{Listen: addr, Timeout: timeout, Named: named, Routes: routes}}})
	}
	h0 := HRef{H: 0, WS: -1}
	// every set x every handler (plain), both forms for a subset
	for si := 0; si < nOrigS; si++ {
		for hi := 0; hi < nOrigH; hi++ {
			if !one([]SetRef{{S: si}}, []RouteSpec{{Sets: []int{0}, H: []HRef{{H: hi, WS: -1}}}}, "global", (si+hi)%3 == 0) {
				return
			}
		}
		if !one([]SetRef{{S: si}}, []RouteSpec{{Sets: []int{0}, H: []HRef{h0}}}, "wrapper", si%2 == 0) {
			return
		}
		if !one([]SetRef{{S: si, Not: true}}, []RouteSpec{{Sets: []int{0}, H: []HRef{h0}}}, "global", false) {
			return
		}
	}
	// every handler nested in tee / subroute (guarded by every 3rd set), and without any matcher
	for hi := 0; hi < nOrigH; hi++ {
		for _, w := range []string{"tee", "subroute"} {
			if !one(nil, []RouteSpec{{H: []HRef{{H: hi, Wrap: w, WS: -1}}}}, "global", false) {
				return
			}
		}
		for si := 0; si < nOrigS; si += 3 {
			if !one(nil, []RouteSpec{{H: []HRef{{H: hi, Wrap: "subroute", WS: si}}}}, "global", false) {
				return
			}
		}
		if !one(nil, []RouteSpec{{H: []HRef{{H: hi, WS: -1}}}}, "wrapper", true) {
			return
		}
	}
	// ordered pairs of sets: two named sets, used as OR in one route, reused in a second route
	step := 1
	if tier != "thorough" {
		step = 3
	}
	for a := 0; a < nOrigS; a++ {
		for b := (a + 1) % step; b < nOrigS; b += step {
			if a == b {
				continue
			}
			named := []SetRef{{S: a}, {S: b}}
			routes := []RouteSpec{{Sets: []int{0, 1}, H: []HRef{h0}}, {Sets: []int{1}, H: []HRef{{H: 1 % nOrigH, WS: -1}}}, {H: []HRef{h0}}}
			if !one(named, routes, "global", false) {
				return
			}
		}
	}
	// ordered pairs of handlers in one route
	for a := 0; a < nOrigH; a++ {
		for b := (a + 1) % step; b < nOrigH; b += step {
			if !one([]SetRef{{S: 0}}, []RouteSpec{{Sets: []int{0}, H: []HRef{{H: a, WS: -1}, {H: b, WS: -1}}}}, "global", false) {
				return
			}
		}
	}
	// the options of one block written in another order (every ordered pair of options moved
	// to the front, the reversal; ordered triples in the thorough tier)
	// ... and the fragments generated from the documented syntax (grammar.go)
	for hi := nOrigH; hi < len(handlers); hi++ {
		if handlers[hi].Deep && tier != "thorough" {
			continue
		}
		form := "global"
		if handlers[hi].Gen && hi%7 == 0 {
			form = "wrapper"
		}
		if !one([]SetRef{{S: 0}}, []RouteSpec{{Sets: []int{0}, H: []HRef{{H: hi, WS: -1}}}}, form, false) {
			return
		}
	}
	for si := nOrigS; si < len(sets); si++ {
		if sets[si].Deep && tier != "thorough" {
			continue
		}
		if !one([]SetRef{{S: si, Not: sets[si].Gen && si%5 == 0}}, []RouteSpec{{Sets: []int{0}, H: []HRef{h0}}}, "global", false) {
			return
		}
	}
	// two servers (second with two listen addresses and UDP)
	for si := 0; si < nOrigS; si += 2 {
		s1 := ServerSpec{Listen: []string{":7000"}, Named: []SetRef{{S: si}}, Routes: []RouteSpec{{Sets: []int{0}, H: []HRef{h0}}}}
		s2 := ServerSpec{Listen: []string{"udp/:7001", "127.0.0.1:7002"}, Timeout: true, Named: []SetRef{{S: (si + 1) % nOrigS}}, Routes: []RouteSpec{{Sets: []int{0}, H: []HRef{{H: si % nOrigH, WS: -1}}}}}
		if !yield(&Scn{Form: "global", Servers: []ServerSpec{s1, s2}}) {
			return
		}
		if !yield(&Scn{Form: "split", Servers: []ServerSpec{s1, s2}}) {
			return
		}
		s3 := ServerSpec{Listen: []string{":7003"}, Routes: []RouteSpec{{H: []HRef{h0}}}}
		if !yield(&Scn{Form: "split", Servers: []ServerSpec{s1, s2, s3}}) {
			return
		}
	}
}

func main() {
	loadFragments()
	deriveAll()
	runner.Main(&runner.Harness{
		ID:    "C15",
		Level: "model_checking",
		Rule:  fmt.Sprintf("building blocks extracted from the repository's adaptation test vectors (%d matcher-set fragments, %d handler fragments, each with the JSON stated for it); configurations composed exhaustively: every set x every handler, every set under 'not', every handler inside tee and inside subroute (guarded and unguarded), ordered pairs of named sets (OR in one route, reuse in another, a route without matchers), ordered pairs of handlers, matching_timeout, two servers with several listen addresses, global-option (servers in one global layer4 block or one block each) and listener-wrapper forms, fragments generated from the documented syntax of the proxy handler (health checks, load balancing, proxy_protocol, upstream forms), the tls handler (connection policies), the tls matcher (sni, alpn, local_ip, remote_ip with ! and private_ranges), the http matcher and the ip matchers - every sequence of up to 2 (3 thorough) options in every order, each option written once as (Caddyfile line, JSON patch) - and every test-vector fragment with the option lines of one of its blocks reordered (every ordered pair of options moved to the front, the reversal; ordered triples in thorough; JSON compared up to the order of list elements; an order the parser rejects is not judged); each printed as Caddyfile and as expected JSON and pushed through the real adapter; states = distinct composed configurations", len(sets), len(handlers)),
		Assumptions: []string{
			"the JSON the maintainers' test vectors state for a fragment is the specification of that fragment; composition (routes, named sets, nesting, servers, wrapper form) is specified by the harness's own printers",
			"determinism is judged on 6 adaptations of each configuration (map iteration order is not controlled)",
			"provisioning is checked only for fragments whose own test vector provisions in this sandbox",
		},
		Scenarios: scenarios,
		Run: func(tier string, scAny any, rep *runner.Report) {
			sc := scAny.(*Scn)
			probeOnce.Do(probeValidatable)
			rep.Scenarios++
			rep.Executions++
			rep.Transitions += 7
			rep.States++
			if len(sc.Servers[0].Named) > 0 || len(sc.Servers) > 1 {
				rep.Nontrivial++
			}
			rep.Outcome(uint64(len(sc.Caddyfile())))
			before := reorderRejected
			judge(sc, func(sig, msg string) { rep.Fail(sc, sig, msg, nil) })
			if usesReordered(sc) {
				rep.Count("reordered_option_blocks", 1)
				rep.Count("reordered_rejected_by_parser", reorderRejected-before)
			}
		},
		DecodeScenario: func(raw json.RawMessage) (any, error) {
			sc := &Scn{}
			return sc, json.Unmarshal(raw, sc)
		},
		Replay: func(scAny any, _ []int) []explore.Failure {
			probeOnce.Do(probeValidatable)
			var out []explore.Failure
			judge(scAny.(*Scn), func(sig, msg string) { out = append(out, explore.Failure{Sig: sig, Msg: msg}) })
			return out
		},
		Budget: func(tier string) time.Duration { return 15 * time.Minute },
	})
}
