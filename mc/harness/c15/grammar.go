//go:build verif

package main

// Fragments generated from the Caddyfile syntax documented on the UnmarshalCaddyfile methods
// of the modules the property is anchored in (proxy handler with upstreams, load balancing and
// health checks; tls matcher with its sub-matchers; tls handler with connection policies; http
// matcher; ip matchers).  Each option is written down here once as a (Caddyfile line, JSON
// patch) pair - an independent printer: the JSON field names and value encodings are those of
// the documented JSON configuration, not obtained from the adapter.  Fragments are every
// sequence of up to three options with distinct targets, in every order.

import (
	"encoding/json"
	"fmt"
	"strings"

	"github.com/caddyserver/caddy/v2/modules/caddyhttp"
)

type opt struct {
	lines []string // the option as written (block options span several lines)
	path  string   // dotted JSON path of the value; a trailing "[]" appends to a list
	val   any
}

func o(line, path string, val any) opt { return opt{[]string{line}, path, val} }

func sec(n float64) float64 { return n * 1e9 }

// put merges val at the dotted path into m.
func put(m map[string]any, path string, val any) {
	app := strings.HasSuffix(path, "[]")
	path = strings.TrimSuffix(path, "[]")
	ks := strings.Split(path, ".")
	for _, k := range ks[:len(ks)-1] {
		nx, ok := m[k].(map[string]any)
		if !ok {
			nx = map[string]any{}
			m[k] = nx
		}
		m = nx
	}
	last := ks[len(ks)-1]
	if app {
		l, _ := m[last].([]any)
		m[last] = append(l, val)
		return
	}
	m[last] = val
}

func target(p string) string { return strings.TrimSuffix(p, "[]") }

// sequences yields every sequence of 1..k options with pairwise distinct targets (list
// targets may repeat), in every order.
func sequences(opts []opt, k int, yield func([]opt)) {
	var rec func(cur []opt)
	rec = func(cur []opt) {
		if len(cur) > 0 {
			yield(append([]opt(nil), cur...))
		}
		if len(cur) == k {
			return
		}
		for i := range opts {
			c := opts[i]
			clash := false
			for _, p := range cur {
				if target(p.path) == target(c.path) && !strings.HasSuffix(c.path, "[]") {
					clash = true
				}
				if strings.Join(p.lines, "\n") == strings.Join(c.lines, "\n") {
					clash = true
				}
			}
			if !clash {
				rec(append(cur, c))
			}
		}
	}
	rec(nil)
}

func norm(v any) json.RawMessage {
	b, err := json.Marshal(v)
	if err != nil {
		panic(err)
	}
	return b
}

// ipArgs: documented for the tls matcher's remote_ip: "IPs and CIDRs starting with ! symbol
// are treated as not_ranges"; private_ranges is Caddy's shortcut for the private CIDR list.
func ipRanges(args []string) map[string]any {
	var r, n []any
	for _, a := range args {
		neg := false
		if len(a) > 1 && a[0] == '!' {
			neg, a = true, a[1:]
		}
		l := []string{a}
		if a == "private_ranges" {
			l = caddyhttp.PrivateRangesCIDR()
		}
		for _, x := range l {
			if neg {
				n = append(n, x)
			} else {
				r = append(r, x)
			}
		}
	}
	m := map[string]any{}
	if len(r) > 0 {
		m["ranges"] = r
	}
	if len(n) > 0 {
		m["not_ranges"] = n
	}
	return m
}

func strs(ss ...string) []any {
	out := make([]any, len(ss))
	for i, s := range ss {
		out[i] = s
	}
	return out
}

// Sequences of three options and the richer inline forms are marked Deep (thorough tier).
func genFragments() (gs, gh []frag) {
	k := 3
	// ---- proxy handler ---------------------------------------------------------------
	proxyOpts := []opt{
		o("health_interval 1s", "health_checks.active.interval", sec(1)),
		o("health_interval 250ms", "health_checks.active.interval", sec(0.25)),
		o("health_port 8080", "health_checks.active.port", 8080.0),
		o("health_timeout 2m", "health_checks.active.timeout", sec(120)),
		o("fail_duration 5s", "health_checks.passive.fail_duration", sec(5)),
		o("max_fails 10", "health_checks.passive.max_fails", 10.0),
		o("unhealthy_connection_count 5", "health_checks.passive.unhealthy_connection_count", 5.0),
		o("lb_policy round_robin", "load_balancing.selection", map[string]any{"policy": "round_robin"}),
		o("lb_policy first", "load_balancing.selection", map[string]any{"policy": "first"}),
		o("lb_policy least_conn", "load_balancing.selection", map[string]any{"policy": "least_conn"}),
		o("lb_policy ip_hash", "load_balancing.selection", map[string]any{"policy": "ip_hash"}),
		o("lb_policy random", "load_balancing.selection", map[string]any{"policy": "random"}),
		o("lb_policy random_choose", "load_balancing.selection", map[string]any{"policy": "random_choose"}),
		o("lb_policy random_choose 3", "load_balancing.selection", map[string]any{"policy": "random_choose", "choose": 3.0}),
		o("lb_try_duration 5s", "load_balancing.try_duration", sec(5)),
		o("lb_try_interval 1500ms", "load_balancing.try_interval", sec(1.5)),
		o("proxy_protocol v1", "proxy_protocol", "v1"),
		o("proxy_protocol v2", "proxy_protocol", "v2"),
		o("upstream 10.0.0.1:8080", "upstreams[]", map[string]any{"dial": strs("10.0.0.1:8080")}),
		o("upstream 10.0.0.2:8080 10.0.0.2:8888", "upstreams[]", map[string]any{"dial": strs("10.0.0.2:8080", "10.0.0.2:8888")}),
		{[]string{"upstream {", "\tdial 10.0.0.3:443 10.0.0.33:443", "\tmax_connections 2", "\ttls", "}"}, "upstreams[]",
			map[string]any{"dial": strs("10.0.0.3:443", "10.0.0.33:443"), "max_connections": 2.0, "tls": map[string]any{}}},
		{[]string{"upstream 10.0.0.4:443 {", "\ttls_insecure_skip_verify", "\ttls_server_name up.example.com", "}"}, "upstreams[]",
			map[string]any{"dial": strs("10.0.0.4:443"), "tls": map[string]any{"insecure_skip_verify": true, "server_name": "up.example.com"}}},
		{[]string{"upstream {", "\tmax_connections 7", "\tdial 10.0.0.5:80", "}"}, "upstreams[]",
			map[string]any{"dial": strs("10.0.0.5:80"), "max_connections": 7.0}},
		// "upstream [<address:port>] { dial <address:port> [<address:port>] }": the same-line
		// address and the dial options name the peers in the order written
		{[]string{"upstream 10.0.0.6:1 {", "\tdial 10.0.0.7:2", "\tdial 10.0.0.8:3 10.0.0.9:4", "}"}, "upstreams[]",
			map[string]any{"dial": strs("10.0.0.6:1", "10.0.0.7:2", "10.0.0.8:3", "10.0.0.9:4")}},
		{[]string{"upstream 10.0.1.1:1 10.0.1.2:2 {", "\tmax_connections 3", "\tdial 10.0.1.3:3", "}"}, "upstreams[]",
			map[string]any{"dial": strs("10.0.1.1:1", "10.0.1.2:2", "10.0.1.3:3"), "max_connections": 3.0}},
	}
	sequences(proxyOpts, k, func(seq []opt) {
		for _, inline := range [][]string{nil, {"10.9.9.9:1"}, {"10.9.9.8:1", "10.9.9.7:2"}} {
			deep := len(seq) == 3 || (len(inline) > 0 && len(seq) > 1)
			hasUp := len(inline) > 0
			for _, op := range seq {
				hasUp = hasUp || op.path == "upstreams[]"
			}
			if !hasUp {
				continue // a proxy without upstreams does not provision (and says so)
			}
			m := map[string]any{"handler": "proxy"}
			for _, a := range inline { // "proxy [<upstreams...>]": one upstream per address
				put(m, "upstreams[]", map[string]any{"dial": strs(a)})
			}
			lines := []string{strings.TrimSpace("proxy "+strings.Join(inline, " ")) + " {"}
			for _, op := range seq {
				for _, l := range op.lines {
					lines = append(lines, "\t"+l)
				}
				put(m, op.path, op.val)
			}
			lines = append(lines, "}")
			gh = append(gh, frag{Src: "gd_handler_proxy.caddytest", Text: lines, JSON: norm(m), Gen: true, Deep: deep})
		}
	})
	// ---- tls handler: connection policies -----------------------------------------------
	cpOpts := []opt{
		o("alpn h2 http/1.1", "alpn", strs("h2", "http/1.1")),
		o("default_sni default.example.com", "default_sni", "default.example.com"),
		o("fallback_sni fallback.example.com", "fallback_sni", "fallback.example.com"),
		o("protocols tls1.2 tls1.3", "protocol_min+max", [2]string{"tls1.2", "tls1.3"}),
		o("protocols tls1.3", "protocol_min+max", [2]string{"tls1.3", ""}),
		o("curves x25519 secp256r1", "curves", strs("x25519", "secp256r1")),
		o("ciphers TLS_AES_128_GCM_SHA256 TLS_CHACHA20_POLY1305_SHA256", "cipher_suites", strs("TLS_AES_128_GCM_SHA256", "TLS_CHACHA20_POLY1305_SHA256")),
		o("drop", "drop", true),
		{[]string{"match {", "\tsni a.example.com *.b.example.com", "}"}, "match", map[string]any{"sni": strs("a.example.com", "*.b.example.com")}},
		{[]string{"match {", "\tremote_ip 10.0.0.0/8 !10.1.0.0/16", "}"}, "match", map[string]any{"remote_ip": ipRanges([]string{"10.0.0.0/8", "!10.1.0.0/16"})}},
		{[]string{"match {", "\tremote_ip !private_ranges", "\tsni c.example.com", "}"}, "match", map[string]any{"remote_ip": ipRanges([]string{"!private_ranges"}), "sni": strs("c.example.com")}},
		{[]string{"cert_selection {", "\tany_tag t1 t2", "}"}, "certificate_selection", map[string]any{"any_tag": strs("t1", "t2")}},
		{[]string{"cert_selection {", "\tserial_number 123456789012", "\tsubject_organization org", "}"}, "certificate_selection", map[string]any{"serial_number": strs("123456789012"), "subject_organization": strs("org")}},
		// serial numbers are decimal big integers, however they are padded
		{[]string{"cert_selection {", "\tserial_number 0123 0017 100", "}"}, "certificate_selection", map[string]any{"serial_number": strs("123", "17", "100")}},
		{[]string{"cert_selection {", "\tserial_number 000000000000000000340282366920938463463374607431768211456", "}"}, "certificate_selection", map[string]any{"serial_number": strs("340282366920938463463374607431768211456")}},
	}
	policy := func(seq []opt) (lines []string, js map[string]any) {
		js = map[string]any{}
		lines = []string{"connection_policy {"}
		for _, op := range seq {
			for _, l := range op.lines {
				lines = append(lines, "\t"+l)
			}
			if op.path == "protocol_min+max" {
				mm := op.val.([2]string)
				js["protocol_min"] = mm[0]
				if mm[1] != "" {
					js["protocol_max"] = mm[1]
				}
				continue
			}
			put(js, op.path, op.val)
		}
		return append(lines, "}"), js
	}
	var policies [][]opt
	sequences(cpOpts, k, func(seq []opt) { policies = append(policies, seq) })
	for i, seq := range policies {
		pl, pj := policy(seq)
		lines := append([]string{"tls {"}, indentAll(pl, "\t")...)
		cps := []any{pj}
		if i%5 == 0 { // a second policy block
			pl2, pj2 := policy(policies[(i*7+3)%len(policies)])
			lines = append(lines, indentAll(pl2, "\t")...)
			cps = append(cps, pj2)
		}
		lines = append(lines, "}")
		gh = append(gh, frag{Src: "gd_handler_tls.caddytest", Text: lines, JSON: norm(map[string]any{"handler": "tls", "connection_policies": cps}), Gen: true, Deep: len(seq) == 3})
	}
	// ---- tls matcher ------------------------------------------------------------------------
	ipArgSets := [][]string{{"10.0.0.0/8"}, {"!192.168.0.0/16"}, {"private_ranges"}, {"!private_ranges"}, {"203.0.113.7", "!10.1.0.0/16", "!private_ranges"}, {"::1", "fc00::/7"}, {"private_ranges", "!10.0.0.0/8"}}
	var tlsOpts []opt
	tlsOpts = append(tlsOpts,
		o("sni a.example.com", "sni", strs("a.example.com")),
		o("sni a.example.com *.b.example.com", "sni", strs("a.example.com", "*.b.example.com")),
		o("alpn h2", "alpn", strs("h2")),
		o("alpn http/1.1 h2", "alpn", strs("http/1.1", "h2")),
		o("local_ip 192.168.0.0/16 10.0.0.1", "local_ip", map[string]any{"ranges": strs("192.168.0.0/16", "10.0.0.1")}),
	)
	for _, as := range ipArgSets {
		tlsOpts = append(tlsOpts, o("remote_ip "+strings.Join(as, " "), "remote_ip", ipRanges(as)))
	}
	gs = append(gs, frag{Src: "gd_handler_tls.caddytest", Text: []string{"tls"}, JSON: norm(map[string]any{"tls": map[string]any{}}), Gen: true})
	sequences(tlsOpts, k, func(seq []opt) {
		m := map[string]any{}
		var body []string
		for _, op := range seq {
			body = append(body, op.lines[0])
			put(m, op.path, op.val)
		}
		js := norm(map[string]any{"tls": m})
		if len(seq) == 1 { // "tls matcher [<args...>]"
			gs = append(gs, frag{Src: "gd_handler_tls.caddytest", Text: []string{"tls " + body[0]}, JSON: js, Gen: true})
		}
		lines := append(append([]string{"tls {"}, indentAll(body, "\t")...), "}")
		gs = append(gs, frag{Src: "gd_handler_tls.caddytest", Text: lines, JSON: js, Gen: true, Deep: len(seq) == 3})
	})
	// ---- ip matchers --------------------------------------------------------------------------
	for _, mname := range []string{"remote_ip", "local_ip"} {
		for _, as := range [][]string{{"10.0.0.0/8"}, {"192.168.0.1"}, {"::1", "fc00::/7"}, {"10.0.0.0/8", "172.16.0.0/12", "2001:db8::/32"}} {
			gs = append(gs, frag{Src: "gd_matcher_sets.caddytest", Text: []string{mname + " " + strings.Join(as, " ")},
				JSON: norm(map[string]any{mname: map[string]any{"ranges": strs(as...)}}), Gen: true})
		}
	}
	// ---- http matcher ---------------------------------------------------------------------------
	httpOpts := []opt{
		o("host a.example.com", "host", strs("a.example.com")),
		o("host a.example.com b.example.com", "host", strs("a.example.com", "b.example.com")),
		o("path /index.html /api/*", "path", strs("/index.html", "/api/*")),
		o("method GET POST", "method", strs("GET", "POST")),
		o("remote_ip 192.168.0.0/16", "remote_ip", map[string]any{"ranges": strs("192.168.0.0/16")}),
		o("header X-Test v", "header", map[string]any{"X-Test": strs("v")}),
		o("not path /private/*", "not[]", map[string]any{"path": strs("/private/*")}),
	}
	sequences(httpOpts, k, func(seq []opt) {
		m := map[string]any{}
		var body []string
		for _, op := range seq {
			body = append(body, op.lines[0])
			put(m, op.path, op.val)
		}
		js := norm(map[string]any{"http": []any{m}})
		if len(seq) == 1 {
			gs = append(gs, frag{Src: "gd_matcher_http.caddytest", Text: []string{"http " + body[0]}, JSON: js, Gen: true})
		}
		lines := append(append([]string{"http {"}, indentAll(body, "\t")...), "}")
		gs = append(gs, frag{Src: "gd_matcher_http.caddytest", Text: lines, JSON: js, Gen: true, Deep: len(seq) == 3})
	})
	_ = fmt.Sprint
	return gs, gh
}
