//go:build verif

// C17: throttled reads never exceed burst + rate x time; the stream stays intact.
// The real throttle handler (and golang.org/x/time/rate, both rewritten onto the virtual
// clock) runs in a real route under the controlled scheduler; every underlying read of the
// client connection is timestamped with virtual time.
package main

import (
	"context"
	"encoding/json"
	"fmt"
	"os"
	"sort"
	"strings"
	"sync"
	"time"

	"github.com/caddyserver/caddy/v2"
	"github.com/caddyserver/caddy/v2/caddyconfig"
	"github.com/caddyserver/caddy/v2/caddyconfig/caddyfile"
	"go.uber.org/zap"

	"github.com/mholt/caddy-l4/layer4"
	"github.com/mholt/caddy-l4/modules/l4throttle"

	"verif/mc/explore"
	"verif/mc/hm"
	"verif/mc/runner"
	"verif/mc/vnet"
	"verif/mc/vsched"
	"verif/mc/vtime"
)

type Scn struct {
	Rate       float64 `json:"rate"`
	Burst      int     `json:"burst"`
	TotalRate  float64 `json:"total_rate"`
	TotalBurst int     `json:"total_burst"`
	LatencyMS  int     `json:"latency_ms"`
	Size       int     `json:"size"`
	Buf        int     `json:"buf"`
	Supply     string  `json:"supply"` // all | trickle
	Conns      int     `json:"conns"`
	// Form "caddyfile": the same options written as a Caddyfile block and parsed by the
	// handler's UnmarshalCaddyfile (the configured limits are the ones written down)
	Form string `json:"form,omitempty"`
	// Second "loose": a second throttle handler follows in the same route with limits of the
	// same kinds, a thousand times looser - the first handler's envelope must still hold
	Second string `json:"second,omitempty"`
	// CallPts: a connection may also be preempted between two calls to the (shared) limiter
	CallPts bool `json:"call_points,omitempty"`
}

func throttleConfig(sc *Scn) map[string]any {
	th := map[string]any{"handler": "throttle"}
	if sc.Form == "caddyfile" {
		var sb strings.Builder
		sb.WriteString("throttle {\n")
		if sc.Burst > 0 { // (written before the rate on purpose: option order is free)
			fmt.Fprintf(&sb, "\tread_burst_size %d\n", sc.Burst)
		}
		if sc.Rate > 0 {
			fmt.Fprintf(&sb, "\tread_bytes_per_second %g\n", sc.Rate)
		}
		if sc.TotalRate > 0 {
			fmt.Fprintf(&sb, "\ttotal_read_bytes_per_second %g\n", sc.TotalRate)
		}
		if sc.TotalBurst > 0 {
			fmt.Fprintf(&sb, "\ttotal_read_burst_size %d\n", sc.TotalBurst)
		}
		if sc.LatencyMS > 0 {
			fmt.Fprintf(&sb, "\tlatency %dms\n", sc.LatencyMS)
		}
		sb.WriteString("}\n")
		h := &l4throttle.Handler{}
		if err := h.UnmarshalCaddyfile(caddyfile.NewTestDispenser(sb.String())); err != nil {
			panic(fmt.Sprintf("the throttle block does not parse: %v\n%s", err, sb.String()))
		}
		var m map[string]any
		json.Unmarshal(caddyconfig.JSONModuleObject(h, "handler", "throttle", nil), &m)
		return m
	}
	if sc.Rate > 0 {
		th["read_bytes_per_second"] = sc.Rate
	}
	if sc.Burst > 0 {
		th["read_burst_size"] = sc.Burst
	}
	if sc.TotalRate > 0 {
		th["total_read_bytes_per_second"] = sc.TotalRate
	}
	if sc.TotalBurst > 0 {
		th["total_read_burst_size"] = sc.TotalBurst
	}
	if sc.LatencyMS > 0 {
		th["latency"] = fmt.Sprintf("%dms", sc.LatencyMS)
	}
	return th
}

type recorded struct {
	mu    sync.Mutex
	data  map[int][]byte
	first map[int]int64 // virtual time at which the handler behind the throttle first called Read
}

var R *recorded

// Sink is a terminal handler reading with a chosen buffer size until EOF.
type Sink struct {
	Buf int `json:"buf"`
}

func (*Sink) CaddyModule() caddy.ModuleInfo {
	return caddy.ModuleInfo{ID: "layer4.handlers.h_sink", New: func() caddy.Module { return new(Sink) }}
}

func (s *Sink) Handle(cx *layer4.Connection, _ layer4.Handler) error {
	port := cx.RemoteAddr().String()
	k := int(port[len(port)-1] - '0')
	buf := make([]byte, s.Buf)
	var data []byte
	R.mu.Lock()
	R.first[k] = vsched.NowNS()
	R.mu.Unlock()
	for {
		n, err := cx.Read(buf)
		data = append(data, buf[:n]...)
		if err != nil {
			break
		}
	}
	R.mu.Lock()
	R.data[k] = data
	R.mu.Unlock()
	return nil
}

func init() { caddy.RegisterModule(&Sink{}) }

func payload(k, n int) []byte {
	p := make([]byte, n)
	for i := range p {
		p[i] = byte('a' + (i*3+k*11)%26)
	}
	return p
}

type result struct {
	out   vsched.Outcome
	conns []*vnet.Conn
	start int64
	data  map[int][]byte
	first map[int]int64
}

func execute(x *explore.Exec, sc *Scn) *result {
	res := &result{}
	R = &recorded{data: map[int][]byte{}, first: map[int]int64{}}
	layer4.VerifResetPools()
	var trace func(string)
	if os.Getenv("VERIF_TRACE") != "" {
		trace = func(l string) { fmt.Printf("  | %8.3fs %s\n", float64(vsched.NowNS())/1e9, l) }
	}
	// the handler-wide limiter is shared by the connections: with two of them a connection may
	// be preempted between two calls to it
	vsched.CallPoints = sc.CallPts
	defer func() { vsched.CallPoints = false }()
	res.out = vsched.Run(x, vsched.Options{Horizon: 30000, Trace: trace}, func() {
		ctx, cancel := caddy.NewContext(caddy.Context{Context: context.Background()})
		defer cancel()
		th := throttleConfig(sc)
		hs := []map[string]any{th}
		if sc.Second == "loose" {
			th2 := map[string]any{"handler": "throttle"}
			if sc.Rate > 0 {
				th2["read_bytes_per_second"], th2["read_burst_size"] = sc.Rate*1000, 100000
			}
			if sc.TotalRate > 0 {
				th2["total_read_bytes_per_second"], th2["total_read_burst_size"] = sc.TotalRate*1000, 100000
			}
			hs = append(hs, th2)
		}
		routes := []map[string]any{{"handle": append(hs, map[string]any{"handler": "h_sink", "buf": sc.Buf})}}
		srv := &layer4.Server{}
		if err := json.Unmarshal(hm.J(routes), &srv.Routes); err != nil {
			panic(err)
		}
		if err := srv.Provision(ctx, zap.NewNop()); err != nil {
			panic(err)
		}
		res.start = vsched.NowNS()
		for k := 0; k < sc.Conns; k++ {
			k := k
			cl, sv := vnet.Pipe(fmt.Sprintf("c%d", k), fmt.Sprintf("s%d", k), vnet.TCP("192.0.2.9", 4000+k), vnet.TCP("10.0.0.1", 443))
			sv.Menu = hm.StdMenu(1)
			sv.EOFWithData = true // the last bytes may arrive together with end-of-stream
			res.conns = append(res.conns, sv)
			vsched.GoNamed(fmt.Sprintf("handle%d", k), func() { layer4.VerifHandle(srv, sv) })
			vsched.GoNamed(fmt.Sprintf("client%d", k), func() {
				p := payload(k, sc.Size)
				if sc.Supply == "all" {
					if len(p) > 0 {
						cl.Write(p)
					}
				} else {
					for i := range p {
						cl.Write(p[i : i+1])
						vtime.Sleep(150 * time.Millisecond)
					}
				}
				cl.CloseWrite()
			})
		}
	})
	res.data = R.data
	res.first = R.first
	return res
}

// effective burst as Provision computes it
func effBurst(rate float64, burst int) int {
	if rate > 0 && burst == 0 {
		return int(rate) + 1
	}
	return burst
}

func check(x *explore.Exec, sc *Scn, r *result) {
	desc := func() string {
		var sb strings.Builder
		for k, c := range r.conns {
			fmt.Fprintf(&sb, "conn%d reads:", k)
			for i := range c.ReadAt {
				fmt.Fprintf(&sb, " %d@%.3fs", c.ReadN[i], float64(c.ReadAt[i])/1e9)
			}
			fmt.Fprintf(&sb, " firstAttempt@%.3fs got=%q; ", first(c.ReadCallAt), r.data[k])
		}
		return fmt.Sprintf("scenario=%s %s blocked=%v", hm.J(sc), sb.String(), r.out.Blocked)
	}
	for _, p := range r.out.Panics {
		x.Fail("panic:"+p[strings.LastIndex(p, " at ")+4:], "a thread panicked: %s; %s", p, desc())
	}
	if r.out.Horizon {
		x.Fail("horizon", "step horizon exceeded; %s", desc())
		return
	}
	// a burst size without a rate never refills: once the burst is used up the reader waits for
	// ever, which is what the configuration says
	burstOnly := (sc.Rate == 0 && sc.Burst > 0) || (sc.TotalRate == 0 && sc.TotalBurst > 0)
	if r.out.Deadlock && !burstOnly {
		x.Fail("deadlock", "threads blocked forever: %v; %s", r.out.Blocked, desc())
		return
	}
	const slack = 1e-6
	type rd struct {
		at int64
		n  int
	}
	var all []rd
	t0all := int64(-1)
	for k, c := range r.conns {
		want := payload(k, sc.Size)
		if burstOnly {
			want = want[:min(len(want), len(r.data[k]))] // whatever got through is a prefix
		}
		if string(r.data[k]) != string(want) {
			x.Fail("stream-not-intact", "connection %d: the handler behind the throttle read %q, the client sent %q; %s", k, r.data[k], want, desc())
		}
		if len(c.ReadCallAt) == 0 {
			continue
		}
		// the time origin is the first read through the throttle (the handler's first Read
		// call); the underlying read may be attempted later
		t0, ok := r.first[k]
		if !ok {
			continue
		}
		if t0all < 0 || t0 < t0all {
			t0all = t0
		}
		if lat := int64(sc.LatencyMS) * 1e6; c.ReadCallAt[0] < r.start+lat {
			x.Fail("read-before-latency", "connection %d: first read attempted %.3fs after the connection started, before the %.3fs latency; %s", k, float64(t0-r.start)/1e9, float64(lat)/1e9, desc())
		}
		if b := effBurst(sc.Rate, sc.Burst); sc.Rate > 0 || b > 0 {
			cum := 0
			for i := range c.ReadAt {
				cum += c.ReadN[i]
				allowed := float64(b) + sc.Rate*float64(c.ReadAt[i]-t0)/1e9 + slack
				if float64(cum) > allowed {
					x.Fail("per-connection-rate-exceeded", "connection %d: %d bytes read %.3fs after the first read, allowed burst %d + %.1f B/s = %.3f; %s", k, cum, float64(c.ReadAt[i]-t0)/1e9, b, sc.Rate, allowed, desc())
					break
				}
			}
		}
		for i := range c.ReadAt {
			all = append(all, rd{c.ReadAt[i], c.ReadN[i]})
		}
	}
	if b := effBurst(sc.TotalRate, sc.TotalBurst); (sc.TotalRate > 0 || b > 0) && t0all >= 0 {
		sort.SliceStable(all, func(i, j int) bool { return all[i].at < all[j].at })
		cum := 0
		for i, e := range all {
			cum += e.n
			// reads at the same instant are judged together
			if i+1 < len(all) && all[i+1].at == e.at {
				continue
			}
			allowed := float64(b) + sc.TotalRate*float64(e.at-t0all)/1e9 + slack
			if float64(cum) > allowed {
				x.Fail("total-rate-exceeded", "all connections together: %d bytes read %.3fs after the first read, allowed burst %d + %.1f B/s = %.3f; %s", cum, float64(e.at-t0all)/1e9, b, sc.TotalRate, allowed, desc())
				break
			}
		}
	}
	var sb strings.Builder
	for _, c := range r.conns {
		fmt.Fprint(&sb, c.ReadN, c.ReadAt, ";")
	}
	x.Observe(sb.String())
}

func first(a []int64) float64 {
	if len(a) == 0 {
		return -1
	}
	return float64(a[0]) / 1e9
}

func scenarios(tier string, yield func(any) bool) {
	sizes := []int{0, 1, 3, 8, 20}
	bufs := []int{1, 5, 64}
	if tier == "thorough" {
		bufs = []int{1, 2, 5, 64}
		sizes = nil
		for i := 0; i <= 20; i++ {
			sizes = append(sizes, i)
		}
	}
	type lim struct {
		rate  float64
		burst int
	}
	per := []lim{{0, 0}, {2, 0}, {2, 1}, {5, 3}, {5, 8}, {1000, 0}, {2.5, 1}}
	tot := []lim{{0, 0}, {5, 0}, {2, 3}}
	if tier != "thorough" {
		per = []lim{{0, 0}, {2, 0}, {5, 3}, {1000, 0}, {2.5, 1}}
	}
	// the limits written as a Caddyfile block
	for _, p := range per {
		for _, t := range tot {
			if p.rate == 0 && t.rate == 0 {
				continue
			}
			for _, sz := range []int{8, 20} {
				if !yield(&Scn{Rate: p.rate, Burst: p.burst, TotalRate: t.rate, TotalBurst: t.burst, Size: sz, Buf: 64, Supply: "all", Conns: 1, Form: "caddyfile"}) {
					return
				}
			}
		}
	}
	// two connections under a handler-wide limit, preemptible between any two calls to the
	// limiter they share (a check followed by a take is not atomic)
	for _, t := range tot {
		if t.rate == 0 {
			continue
		}
		for _, buf := range []int{5, 64} {
			if !yield(&Scn{TotalRate: t.rate, TotalBurst: t.burst, Size: 3, Buf: buf, Supply: "all", Conns: 2, CallPts: true}) {
				return
			}
		}
	}
	// a burst size without a rate: the burst is all the connection(s) ever get
	for _, conns := range []int{1, 2} {
		for _, lim := range [][2]int{{3, 0}, {0, 5}, {3, 5}} {
			for _, buf := range []int{1, 5, 64} {
				if !yield(&Scn{Burst: lim[0], TotalBurst: lim[1], Size: 8, Buf: buf, Supply: "all", Conns: conns}) {
					return
				}
			}
		}
	}
	// two throttle handlers in one route, the stricter first
	for _, conns := range []int{1, 2} {
		for _, p := range per {
			for _, t := range tot {
				if p.rate == 0 && t.rate == 0 || p.rate >= 1000 {
					continue
				}
				for _, buf := range []int{5, 64} {
					if !yield(&Scn{Rate: p.rate, Burst: p.burst, TotalRate: t.rate, TotalBurst: t.burst, Size: 8, Buf: buf, Supply: "all", Conns: conns, Second: "loose"}) {
						return
					}
				}
			}
		}
	}
	for _, conns := range []int{1, 2} {
		for _, p := range per {
			for _, t := range tot {
				if p.rate == 0 && t.rate == 0 {
					continue
				}
				for _, lat := range []int{0, 500} {
					for _, buf := range bufs {
						for _, supply := range []string{"all", "trickle"} {
							for _, sz := range sizes {
								if conns == 2 && (sz > 8 || buf == 2 || (supply == "trickle" && sz > 3)) {
									continue
								}
								if supply == "trickle" && sz > 8 {
									continue
								}
								if tier != "thorough" && lat > 0 && sz > 3 {
									continue
								}
								if !yield(&Scn{Rate: p.rate, Burst: p.burst, TotalRate: t.rate, TotalBurst: t.burst, LatencyMS: lat, Size: sz, Buf: buf, Supply: supply, Conns: conns}) {
									return
								}
							}
						}
					}
				}
			}
		}
	}
}

func bounds(tier string, sc *Scn) (explore.Bounds, int) {
	b := explore.DefaultBounds(2)
	b[explore.KSched] = 4
	tot := 3
	if sc.Conns == 2 && sc.Size <= 3 && sc.Supply == "all" && (tier == "thorough" || (sc.Buf == 1 && sc.LatencyMS == 0)) {
		tot = 3
	}
	if tier == "thorough" {
		tot++
	}
	return b, tot
}

func main() {
	runner.Main(&runner.Harness{
		ID:    "C17",
		Level: "model_checking",
		Rule:  "per-connection limits {none, 2 B/s default burst, 2/1, 5/3, 5/8, 1000/default, 2.5/1} x total limits {none, 5 B/s default burst, 2/3} x latency {0, 500 ms} x reader buffer {1,2,5,64} x stream sizes 0..20 x supply {all at once, one byte every 150 ms} x 1 or 2 concurrent connections sharing the handler; every interleaving / early timer / short read within the joint deviation budget; golang.org/x/time/rate itself runs on the virtual clock; configurations with a burst size and no rate (the reader blocks once the burst is spent); two throttle handlers in one route; two connections under a handler-wide limit with a scheduling point before every call to the shared limiter",
		Assumptions: []string{
			"computation takes no virtual time; bound checked at every underlying read with exact virtual timestamps and 1e-6 slack for float rounding",
			"the time origin of the bound is the first Read call through the throttle of the connection (for the total limit: of any connection)",
		},
		Scenarios: scenarios,
		Run: func(tier string, scAny any, rep *runner.Report) {
			sc := scAny.(*Scn)
			b, tot := bounds(tier, sc)
			ex := explore.New(b)
			ex.Total = tot
			ex.Stop = rep.Expired
			vsched.StateSink = rep.State
			ex.Explore(func(x *explore.Exec) { check(x, sc, execute(x, sc)) })
			rep.AddStats(sc, &ex.Stats)
		},
		DecodeScenario: func(raw json.RawMessage) (any, error) {
			sc := &Scn{}
			return sc, json.Unmarshal(raw, sc)
		},
		Replay: func(scAny any, choices []int) []explore.Failure {
			sc := scAny.(*Scn)
			b, _ := bounds("thorough", sc)
			ex := explore.New(b)
			return ex.RunOnce(choices, func(x *explore.Exec) { check(x, sc, execute(x, sc)) }).Failures
		},
		Budget: func(tier string) time.Duration {
			if tier == "thorough" {
				return 25 * time.Minute
			}
			return 120 * time.Second
		},
	})
}
