//go:build verif

// C10: selection policies return an available upstream iff one exists, per contract.
// Explicit enumeration of pool states x policy parameters x every sequence of random draws,
// calling the real Select methods on white-box-constructed upstreams.
package main

import (
	"context"
	"encoding/json"
	"fmt"
	"net"
	"runtime/debug"
	"sort"
	"strings"
	"time"

	"github.com/caddyserver/caddy/v2"
	"go.uber.org/zap"

	"github.com/mholt/caddy-l4/layer4"
	"github.com/mholt/caddy-l4/modules/l4proxy"

	"verif/mc/explore"
	"verif/mc/hm"
	"verif/mc/runner"
	"verif/mc/vrand"
)

// upstream state kinds
var kinds = []string{"ok0", "ok1", "ok2", "unhealthy", "failed", "full", "2p-ok", "2p-one-down", "2p-busy", "2p-one-full"}

func mkUpstream(i int, kind string) *l4proxy.Upstream {
	dial := []string{fmt.Sprintf("10.0.0.%d:80", i+1)}
	P := func(c int32, un bool, f int32) l4proxy.VerifPeerState {
		return l4proxy.VerifPeerState{NumConns: c, Unhealthy: un, Fails: f}
	}
	switch kind {
	case "ok0":
		return l4proxy.VerifNewUpstream(dial, 0, 1, []l4proxy.VerifPeerState{P(0, false, 0)})
	case "ok1":
		return l4proxy.VerifNewUpstream(dial, 3, 2, []l4proxy.VerifPeerState{P(1, false, 1)})
	case "ok2":
		return l4proxy.VerifNewUpstream(dial, 0, -1, []l4proxy.VerifPeerState{P(2, false, 5)})
	case "unhealthy":
		return l4proxy.VerifNewUpstream(dial, 0, 1, []l4proxy.VerifPeerState{P(0, true, 0)})
	case "failed":
		return l4proxy.VerifNewUpstream(dial, 0, 1, []l4proxy.VerifPeerState{P(0, false, 1)})
	case "full":
		return l4proxy.VerifNewUpstream(dial, 1, 0, []l4proxy.VerifPeerState{P(1, false, 0)})
	case "2p-ok":
		dial = append(dial, fmt.Sprintf("10.0.1.%d:80", i+1))
		return l4proxy.VerifNewUpstream(dial, 2, 1, []l4proxy.VerifPeerState{P(1, false, 0), P(0, false, 0)})
	case "2p-one-down":
		dial = append(dial, fmt.Sprintf("10.0.1.%d:80", i+1))
		return l4proxy.VerifNewUpstream(dial, 0, 1, []l4proxy.VerifPeerState{P(0, false, 0), P(0, true, 0)})
	case "2p-busy":
		// the limit is per peer (every proxied connection goes to every peer): each peer is
		// below it although the counts add up to it
		dial = append(dial, fmt.Sprintf("10.0.1.%d:80", i+1))
		return l4proxy.VerifNewUpstream(dial, 2, 1, []l4proxy.VerifPeerState{P(1, false, 0), P(1, false, 0)})
	case "2p-one-full":
		dial = append(dial, fmt.Sprintf("10.0.1.%d:80", i+1))
		return l4proxy.VerifNewUpstream(dial, 2, 1, []l4proxy.VerifPeerState{P(2, false, 0), P(0, false, 0)})
	}
	panic(kind)
}

// refAvailable / refConns: the reference model of a state kind (independent of the code).
func refAvailable(kind string) bool {
	switch kind {
	case "ok0", "ok1", "ok2", "2p-ok", "2p-busy":
		return true
	}
	return false
}
func refConns(kind string) int {
	switch kind {
	case "ok1", "2p-ok", "full":
		return 1
	case "ok2", "2p-busy", "2p-one-full":
		return 2
	}
	return 0
}

type Scn struct {
	Policy string   `json:"policy"`
	Pool   []string `json:"pool"`
	Choose int      `json:"choose,omitempty"`
	Robin  uint32   `json:"robin,omitempty"`
	Addr   string   `json:"addr,omitempty"`
}

func loadPolicy(sc *Scn) (l4proxy.Selector, context.CancelFunc) {
	ctx, cancel := caddy.NewContext(caddy.Context{Context: context.Background()})
	cfg := `{}`
	if sc.Policy == "random_choose" && sc.Choose != 0 {
		cfg = fmt.Sprintf(`{"choose":%d}`, sc.Choose)
	}
	mod, err := ctx.LoadModuleByID("layer4.proxy.selection_policies."+sc.Policy, json.RawMessage(cfg))
	if err != nil {
		panic(err)
	}
	return mod.(l4proxy.Selector), cancel
}

func parseAddr(s string) net.Addr {
	if strings.HasPrefix(s, "unix:") {
		return &net.UnixAddr{Name: s[5:], Net: "unix"}
	}
	if strings.HasPrefix(s, "udp:") {
		a, _ := net.ResolveUDPAddr("udp", s[4:])
		return a
	}
	a, err := net.ResolveTCPAddr("tcp", s)
	if err != nil {
		panic(err)
	}
	return a
}

var nop = zap.NewNop()

func connFor(addr string) *layer4.Connection {
	sc := hm.NewSConn(nil, nil, true)
	if addr != "" {
		sc.Remote = parseAddr(addr)
	}
	return layer4.WrapConnection(sc, nil, nop)
}

// sel calls Select, converting a panic into a result.
func sel(p l4proxy.Selector, pool l4proxy.UpstreamPool, cx *layer4.Connection) (idx int, panicked string) {
	defer func() {
		if r := recover(); r != nil {
			idx, panicked = -2, fmt.Sprintf("%v at %s", r, site(string(debug.Stack())))
		}
	}()
	u := p.Select(pool, cx)
	if u == nil {
		return -1, ""
	}
	for i, q := range pool {
		if q == u {
			return i, ""
		}
	}
	return -3, ""
}

func site(st string) string {
	lines := strings.Split(st, "\n")
	for i := 0; i+1 < len(lines); i++ {
		if strings.Contains(lines[i+1], "/repo/") {
			fn := lines[i]
			if k := strings.LastIndex(fn, "("); k > 0 {
				fn = fn[:k]
			}
			if k := strings.LastIndex(fn, "/"); k >= 0 {
				fn = fn[k+1:]
			}
			return fn
		}
	}
	return "?"
}

func availIdx(pool []string) []int {
	var out []int
	for i, k := range pool {
		if refAvailable(k) {
			out = append(out, i)
		}
	}
	return out
}

var seqAll runner.Seq

func runScenario(sc *Scn, rep *runner.Report, replayChoices []int) []explore.Failure {
	policy, cancel := loadPolicy(sc)
	defer cancel()
	avail := availIdx(sc.Pool)
	inAvail := map[int]bool{}
	for _, i := range avail {
		inAvail[i] = true
	}
	desc := fmt.Sprintf("policy=%s pool=%v choose=%d robin=%d addr=%q available=%v", sc.Policy, sc.Pool, sc.Choose, sc.Robin, sc.Addr, avail)
	reached := map[int]bool{}
	body := func(x *explore.Exec) {
		pool := l4proxy.UpstreamPool{}
		for i, k := range sc.Pool {
			u := mkUpstream(i, k)
			if l4proxy.VerifAvailable(u) != refAvailable(k) {
				x.Fail("available-mismatch:"+k, "upstream state %s: available()=%v, reference says %v", k, l4proxy.VerifAvailable(u), refAvailable(k))
			}
			pool = append(pool, u)
		}
		vrand.Hook = func(n int) int { return x.Choose(explore.KRand, n) }
		defer func() { vrand.Hook = nil }()
		cx := connFor(sc.Addr)
		check := func(idx int, pan string, what string) {
			x.Step()
			switch {
			case pan != "":
				x.Fail("panic:"+sc.Policy+":"+strings.SplitN(pan, " at ", 2)[1], "%s panics: %s; %s draws=%v", what, pan, desc, x.Choices())
			case idx == -3:
				x.Fail("foreign-upstream:"+sc.Policy, "%s returned an upstream that is not in the pool; %s", what, desc)
			case idx == -1 && len(avail) > 0 && sc.Policy == "round_robin" && sc.Robin > 1<<31:
				x.Fail("round-robin-at-counter-wraparound", "%s returned no upstream although %v are available; %s", what, avail, desc)
			case idx == -1 && len(avail) > 0:
				x.Fail("none-although-available:"+sc.Policy, "%s returned no upstream although %v are available; %s draws=%v", what, avail, desc, x.Choices())
			case idx >= 0 && !inAvail[idx]:
				x.Fail("unavailable-chosen:"+sc.Policy, "%s returned upstream %d (%s) which is not available; %s draws=%v", what, idx, sc.Pool[idx], desc, x.Choices())
			}
		}
		switch sc.Policy {
		case "round_robin":
			rr := policy.(*l4proxy.RoundRobinSelection)
			l4proxy.VerifSetRobin(rr, sc.Robin)
			var seq []int
			for c := 0; c < 2*len(sc.Pool)+1; c++ {
				idx, pan := sel(policy, pool, cx)
				check(idx, pan, fmt.Sprintf("call %d", c))
				seq = append(seq, idx)
			}
			// every window of |available| consecutive calls visits each available upstream once
			if k := len(avail); k > 0 {
				for s := 0; s+k <= len(seq); s++ {
					w := append([]int(nil), seq[s:s+k]...)
					sort.Ints(w)
					if fmt.Sprint(w) != fmt.Sprint(avail) {
						sig := "round-robin-cycle"
						if sc.Robin > 1<<31 {
							sig = "round-robin-at-counter-wraparound"
						}
						x.Fail(sig, "round_robin sequence %v: calls %d..%d visit %v, not each of %v once; %s", seq, s, s+k-1, seq[s:s+k], avail, desc)
						break
					}
				}
			}
			x.Observe(seq)
		case "ip_hash":
			idx, pan := sel(policy, pool, cx)
			check(idx, pan, "Select")
			idx2, _ := sel(policy, pool, cx)
			if idx2 != idx {
				x.Fail("ip-hash-not-deterministic", "ip_hash gave %d then %d; %s", idx, idx2, desc)
			}
			// same IP, other port: same answer
			if a, ok := parseAddrSafe(sc.Addr).(*net.TCPAddr); ok {
				other := connFor((&net.TCPAddr{IP: a.IP, Port: a.Port + 1, Zone: a.Zone}).String())
				if i3, _ := sel(policy, pool, other); i3 != idx {
					x.Fail("ip-hash-port-sensitive", "ip_hash gave %d for %s but %d for the same IP with another port; %s", idx, sc.Addr, i3, desc)
				}
			}
			if a, ok := parseAddrSafe(sc.Addr).(*net.UDPAddr); ok { // datagram clients: same rule
				for _, port := range []int{a.Port + 1, 1, 65535} {
					other := connFor("udp:" + (&net.UDPAddr{IP: a.IP, Port: port, Zone: a.Zone}).String())
					if i3, _ := sel(policy, pool, other); i3 != idx {
						x.Fail("ip-hash-port-sensitive", "ip_hash gave %d for UDP client %s but %d for the same IP with port %d; %s", idx, sc.Addr, i3, port, desc)
					}
				}
				// ... and the same IP over TCP
				if i3, _ := sel(policy, pool, connFor((&net.TCPAddr{IP: a.IP, Port: a.Port}).String())); i3 != idx {
					x.Fail("ip-hash-port-sensitive", "ip_hash gave %d for UDP client %s but %d for the same IP over TCP; %s", idx, sc.Addr, i3, desc)
				}
			}
			// an upstream other than the chosen one leaving does not move the client
			for _, j := range avail {
				if j == idx || idx < 0 {
					continue
				}
				p2 := append(l4proxy.UpstreamPool(nil), pool...)
				p2[j] = mkUpstream(j, "unhealthy")
				if i4, _ := sel(policy, p2, cx); i4 != idx {
					x.Fail("ip-hash-moves-client", "ip_hash chose %d; after upstream %d became unhealthy it chose %d; %s", idx, j, i4, desc)
				}
			}
			x.Observe(idx)
		default:
			idx, pan := sel(policy, pool, cx)
			check(idx, pan, "Select")
			if idx >= 0 {
				reached[idx] = true
			}
			switch sc.Policy {
			case "first":
				if len(avail) > 0 && idx >= 0 && idx != avail[0] {
					x.Fail("first-not-earliest", "first returned %d, earliest available is %d; %s", idx, avail[0], desc)
				}
			case "least_conn":
				if idx >= 0 && inAvail[idx] {
					min := -1
					for _, i := range avail {
						if c := refConns(sc.Pool[i]); min < 0 || c < min {
							min = c
						}
					}
					if refConns(sc.Pool[idx]) != min {
						x.Fail("least-conn-not-minimal", "least_conn returned %d with %d connections, minimum among available is %d; %s draws=%v", idx, refConns(sc.Pool[idx]), min, desc, x.Choices())
					}
				}
			}
			x.Observe(idx)
		}
	}
	ex := explore.New(explore.DefaultBounds(0))
	if replayChoices != nil {
		return ex.RunOnce(replayChoices, body).Failures
	}
	// selections follow each other in one process (package-level state in the policies - pools,
	// caches - carries over): a failure that needs the previous selection is replayed with it
	seqAll.Explore(ex, sc, rep, body)
	if false {
		ex.Explore(body)
	}
	if sc.Policy == "random" {
		for _, i := range avail {
			if !reached[i] {
				ex.Stats.Failures = append(ex.Stats.Failures, explore.Failure{Sig: "random-never-picks-available",
					Msg: fmt.Sprintf("random never returns available upstream %d under any sequence of draws; %s", i, desc)})
			}
		}
	}
	if sc.Policy == "random" && len(ex.Stats.Failures) > 0 {
		for _, f := range ex.Stats.Failures {
			if f.Sig == "random-never-picks-available" {
				rep.Fail(sc, f.Sig, f.Msg, nil)
			}
		}
	}
	rep.States++
	if len(avail) > 0 && len(avail) < len(sc.Pool) {
		rep.Nontrivial++
	}
	return nil
}

func parseAddrSafe(s string) net.Addr {
	if s == "" {
		return &net.TCPAddr{IP: net.IPv4(192, 0, 2, 7), Port: 50000}
	}
	return parseAddr(s)
}

func pools(n int, menu []string, yield func([]string) bool) bool {
	idx := make([]int, n)
	for {
		p := make([]string, n)
		for i, k := range idx {
			p[i] = menu[k]
		}
		if !yield(p) {
			return false
		}
		i := n - 1
		for ; i >= 0; i-- {
			idx[i]++
			if idx[i] < len(menu) {
				break
			}
			idx[i] = 0
		}
		if i < 0 {
			return true
		}
	}
}

var addrs = []string{"192.0.2.7:50000", "10.1.2.3:1", "[2001:db8::1]:443", "[fe80::1%eth0]:22", "unix:/run/x.sock", "udp:198.51.100.9:53", "udp:[2001:db8::5]:5353"}

func scenarios(tier string, yield func(any) bool) {
	small := []string{"ok0", "ok1", "unhealthy", "full"}
	two := []string{"ok0", "unhealthy"}
	emit := func(pool []string, randomToo bool) bool {
		n := len(pool)
		if !yield(&Scn{Policy: "first", Pool: pool}) {
			return false
		}
		for _, r := range []uint32{0, 1, uint32(n), ^uint32(0) - 1, ^uint32(0), ^uint32(0) - uint32(n)} {
			if !yield(&Scn{Policy: "round_robin", Pool: pool, Robin: r}) {
				return false
			}
		}
		for _, a := range addrs {
			if !yield(&Scn{Policy: "ip_hash", Pool: pool, Addr: a}) {
				return false
			}
		}
		if randomToo {
			for _, p := range []string{"random", "least_conn"} {
				if !yield(&Scn{Policy: p, Pool: pool}) {
					return false
				}
			}
			for _, c := range []int{0, 2, 3, n, n + 1} {
				if c == 1 || (c == 0 && n > 0 && false) {
					continue
				}
				if c != 0 && c < 2 {
					continue
				}
				if !yield(&Scn{Policy: "random_choose", Pool: pool, Choose: c}) {
					return false
				}
			}
		}
		return true
	}
	for n := 0; n <= 4; n++ {
		menu := kinds
		if n == 4 && tier != "thorough" {
			menu = kinds[:6]
		}
		if !pools(n, menu, func(p []string) bool { return emit(p, true) }) {
			return
		}
	}
	for n := 5; n <= 8; n++ {
		if !pools(n, two, func(p []string) bool { return emit(p, n <= 5) }) {
			return
		}
	}
	if tier == "thorough" {
		if !pools(5, small, func(p []string) bool { return emit(p, true) }) {
			return
		}
	}
}

func main() {
	vrand.IntDomain = 12
	_ = time.Second
	runner.Main(&runner.Harness{
		ID:    "C10",
		Level: "model_checking",
		Rule:  "every pool of size 0..3 over 10 upstream state kinds (idle/1/2 connections, unhealthy, failed>=max_fails, full, two-peer healthy, two-peer with one peer down, two-peer with each peer below the limit but the sum at it, two-peer with one peer at the limit), size 4 over 6 (10 thorough) kinds, size 5 over 4 kinds (thorough), sizes 5..8 over all available/unavailable vectors; x every policy (first; round_robin from start counters incl. the 2^32 wrap-around, 2n+1 calls; ip_hash for 7 client addresses incl. IPv6, zone, unix, UDP (each also with other source ports and over the other transport); random, least_conn, random_choose with choose in {default,2,3,n,n+1}) x EVERY sequence of random draws (math/rand redirected to the explorer); reference model = filter of the pool by the kind's availability; non-trivial = pools with both available and unavailable upstreams",
		Assumptions: []string{
			"weakrand.Int() is only used modulo small counts: its domain is modelled as 0..11 (all residues mod 1,2,3,4,6,12)",
			"the 2^-32 case where every HRW hash is 0 is outside the enumerated addresses",
		},
		Scenarios: scenarios,
		Run: func(tier string, scAny any, rep *runner.Report) {
			runScenario(scAny.(*Scn), rep, nil)
		},
		DecodeScenario: func(raw json.RawMessage) (any, error) {
			sc := &Scn{}
			return sc, json.Unmarshal(raw, sc)
		},
		Replay: func(scAny any, choices []int) []explore.Failure {
			if choices == nil {
				choices = []int{}
			}
			fs := runScenario(scAny.(*Scn), runner.NewReport(), choices)
			return fs
		},
		ReplayH: func(hist []runner.HistItem, scAny any, choices []int) []explore.Failure {
			for _, it := range hist {
				hs := &Scn{}
				if json.Unmarshal(it.Scenario, hs) == nil {
					c := it.Choices
					if c == nil {
						c = []int{}
					}
					runScenario(hs, runner.NewReport(), c)
				}
			}
			if choices == nil {
				choices = []int{}
			}
			return runScenario(scAny.(*Scn), runner.NewReport(), choices)
		},
		Budget: func(tier string) time.Duration {
			if tier == "thorough" {
				return 20 * time.Minute
			}
			return 120 * time.Second
		},
	})
}
