//go:build verif

// C01: match-and-rewind — every consuming handler reads the client's stream exactly once,
// in order, from the first byte not consumed by an earlier handler, behind any mix of the
// shipped wrapping handlers.  Sequential exhaustive exploration of read segmentations over
// the real Connection / Compile / handler code (TLS with a real crypto/tls client).
package main

import (
	"context"
	"crypto/tls"
	"encoding/json"
	"fmt"
	"io"
	"net"
	"strings"
	"time"

	"github.com/caddyserver/caddy/v2"
	"go.uber.org/zap"

	"github.com/mholt/caddy-l4/layer4"
	_ "github.com/mholt/caddy-l4/modules/l4echo"
	_ "github.com/mholt/caddy-l4/modules/l4proxyprotocol"
	_ "github.com/mholt/caddy-l4/modules/l4subroute"
	_ "github.com/mholt/caddy-l4/modules/l4tee"
	_ "github.com/mholt/caddy-l4/modules/l4throttle"

	"verif/mc/explore"
	"verif/mc/hm"
	"verif/mc/hm/htls"
	"verif/mc/runner"
)

var (
	chunk  = layer4.VerifPrefetchChunkSize()
	limit  = layer4.MaxMatchingBytes
	scaled = chunk != 2048 || limit != 8192
)

type Scn struct {
	Stages []string `json:"stages"` // wrapping / consuming stages in order, last is the terminal (rec|echo)
	Layout string   `json:"layout"` // one: a single route; per: one route (with its own matcher) per stage
	KProf  string   `json:"kprof"`  // small | big0 | bigN | bigAll | nearN : how many bytes the route matchers need
	Mode   string   `json:"mode"`   // matcher read style
	PLen   int      `json:"plen"`
	FIN    bool     `json:"fin"`
	TLS12  bool     `json:"tls12,omitempty"` // the client speaks TLS 1.2: crypto/tls's server then returns the last bytes together with io.EOF when close_notify follows them
}

const ppHeader = "PROXY TCP4 198.51.100.1 203.0.113.2 1111 2222\r\n"

// the address-less v1 header (stage "ppu"): the handler keeps the socket's addresses, on a
// code path of its own
const ppuHeader = "PROXY UNKNOWN\r\n"

func payload(n int) []byte {
	p := make([]byte, n)
	for i := range p {
		p[i] = byte((i*7 + i/251 + 3) % 251)
	}
	return p
}

func big() int {
	if scaled {
		return limit/2 + chunk/2
	}
	return 5000
}

type builder struct {
	sc     *Scn
	nroute int
	total  int
}

func (b *builder) k() int {
	r := b.nroute
	b.nroute++
	switch {
	case b.sc.KProf == "big0" && r == 0:
		return big()
	case b.sc.KProf == "bigN" && r == b.total-1:
		return big()
	case b.sc.KProf == "bigAll":
		return big()
	case b.sc.KProf == "nearN" && r == b.total-1:
		// decided only inside the last chunk below the limit: with an unaligned segmentation the
		// matching buffer overshoots the limit before the route matches
		return limit - 3
	}
	return []int{1, 3, 2}[r%3]
}

func (b *builder) matcher() []map[string]any {
	r := b.nroute
	return []map[string]any{{"h_need": map[string]any{"id": fmt.Sprintf("m%d", r), "k": b.k(), "mode": b.sc.Mode}}}
}

func stageHandlers(st string) []map[string]any {
	switch st {
	case "tee", "echo":
		return []map[string]any{{"handler": "h_pass", "id": "pre-" + st}, stageHandler(st)}
	}
	return []map[string]any{stageHandler(st)}
}

func stageHandler(st string) map[string]any {
	switch st {
	case "pp", "ppu":
		return map[string]any{"handler": "proxy_protocol"}
	case "tls":
		return map[string]any{"handler": "h_tls"}
	case "thr":
		return map[string]any{"handler": "throttle", "read_bytes_per_second": 1e12, "read_burst_size": 1 << 24}
	case "tee":
		return map[string]any{"handler": "tee", "branch": []map[string]any{{"handler": "h_rec", "id": "branch", "buf": 700}}}
	case "c3":
		return map[string]any{"handler": "h_consume", "id": "c3", "n": 3}
	case "subf":
		// a subroute whose only route is not terminal: the connection falls through it to
		// whatever follows the subroute
		return map[string]any{"handler": "subroute", "matching_timeout": "1s", "routes": []map[string]any{
			{"handle": []map[string]any{{"handler": "h_pass", "id": "in-subf"}}}}}
	case "rec":
		return map[string]any{"handler": "h_rec", "id": "rec", "buf": 1500}
	case "echo":
		return map[string]any{"handler": "echo"}
	}
	panic("stage " + st)
}

func (b *builder) routes(stages []string) []map[string]any {
	if b.sc.Layout == "one" {
		return []map[string]any{{"match": b.matcher(), "handle": b.handlers(stages)}}
	}
	var out []map[string]any
	for i, st := range stages {
		if st == "sub" {
			m := b.matcher()
			out = append(out, map[string]any{"match": m, "handle": []map[string]any{
				{"handler": "subroute", "routes": b.routes(stages[i+1:]), "matching_timeout": "1s"}}})
			return out
		}
		out = append(out, map[string]any{"match": b.matcher(), "handle": stageHandlers(st)})
	}
	return out
}

func (b *builder) handlers(stages []string) []map[string]any {
	var hs []map[string]any
	for i, st := range stages {
		if st == "sub" {
			hs = append(hs, map[string]any{"handler": "subroute", "routes": b.routes(stages[i+1:]), "matching_timeout": "1s"})
			return hs
		}
		hs = append(hs, stageHandlers(st)...)
	}
	return hs
}

func countRoutes(sc *Scn) int {
	if sc.Layout == "one" {
		n := 1
		for _, s := range sc.Stages {
			if s == "sub" {
				n++
			}
		}
		return n
	}
	return len(sc.Stages)
}

type built struct {
	routes layer4.RouteList
	cancel context.CancelFunc
}

func build(sc *Scn) *built {
	b := &builder{sc: sc, total: countRoutes(sc)}
	var rl layer4.RouteList
	if err := json.Unmarshal(hm.J(b.routes(sc.Stages)), &rl); err != nil {
		panic(err)
	}
	ctx, cancel := caddy.NewContext(caddy.Context{Context: context.Background()})
	if err := rl.Provision(ctx); err != nil {
		panic(fmt.Sprintf("provision %v: %v", sc, err))
	}
	return &built{rl, cancel}
}

func has(sc *Scn, st string) bool {
	for _, s := range sc.Stages {
		if s == st {
			return true
		}
	}
	return false
}

func menu() func(int) []int {
	if scaled {
		return hm.StdMenu(1, 3, chunk-1, chunk, chunk+1)
	}
	return hm.StdMenu(1, 7, chunk-1, chunk, chunk+1, 4096, 4097)
}

var nop = zap.NewNop()

func execute(x *explore.Exec, sc *Scn, b *built, rep *runner.Report) {
	P := payload(sc.PLen)
	// what the client puts on the wire, outside and inside TLS
	var outer, inner []byte
	seenTLS := false
	for _, st := range sc.Stages {
		switch st {
		case "tls":
			seenTLS = true
		case "pp", "ppu":
			h := ppHeader
			if st == "ppu" {
				h = ppuHeader
			}
			if seenTLS {
				inner = append(inner, h...)
			} else {
				outer = append(outer, h...)
			}
		}
	}
	tr := &hm.Trace{}
	fallback := false
	next := layer4.HandlerFunc(func(cx *layer4.Connection) error { fallback = true; return nil })
	h := b.routes.Compile(nop, time.Second, next)

	var conn net.Conn
	var sconn *hm.SConn
	var dup *hm.Duplex
	clientDone := make(chan struct{})
	var clientErr error
	if seenTLS {
		inner = append(inner, P...)
		dup = hm.NewDuplex(x)
		dup.S.Menu = menu()
		sconn = &dup.S.SConn
		conn = dup.S
		go func() {
			defer close(clientDone)
			defer dup.C.Gone()
			if len(outer) > 0 {
				dup.C.Write(outer)
			}
			ccfg := htls.ClientConfig
			if sc.TLS12 {
				ccfg = ccfg.Clone()
				ccfg.MaxVersion = tls.VersionTLS12
			}
			tc := tls.Client(dup.C, ccfg)
			if clientErr = tc.Handshake(); clientErr != nil {
				return
			}
			if _, clientErr = tc.Write(inner); clientErr != nil {
				return
			}
			if sc.FIN {
				tc.CloseWrite()
			}
			buf, _ := io.ReadAll(tc)
			dup.C.Received = buf
		}()
	} else {
		outer = append(outer, P...)
		sconn = hm.NewSConn(x, outer, sc.FIN)
		sconn.Menu = menu()
		sconn.EOFWithData = true
		if scaled && len(outer) <= 12 {
			sconn.Menu = nil
		}
		conn = sconn
		close(clientDone)
	}
	cx := layer4.WrapConnection(conn, make([]byte, 0, chunk), nop)
	hm.Attach(cx, tr)
	err := h.Handle(cx)
	branchOK, branchWaited := true, false
	if has(sc, "tee") {
		// the branch finishes once the main line has read to EOF (the tee closes the pipe then)
		teeRan, mainEOF := false, false
		for _, e := range tr.Snapshot() {
			if e.Kind == "start" && e.ID == "pre-tee" {
				teeRan = true
			}
			if (e.Kind == "done" && e.ID == "rec" && e.Err == "EOF") || (e.Kind == "start" && e.ID == "pre-echo" && err == nil) {
				mainEOF = true
			}
		}
		if teeRan && mainEOF {
			branchOK = tr.WaitFor("done", "branch", 20*time.Second)
			branchWaited = true
		}
	}
	conn.Close()
	select {
	case <-clientDone:
	case <-time.After(20 * time.Second):
		rep.Incident("CLIENT-JOIN-WATCHDOG")
		return
	}
	if !branchOK {
		rep.Incident("BRANCH-JOIN-WATCHDOG")
		return
	}

	// ---- oracle
	// signatures name the wrapping stages involved, so that a defect behind one wrapper does
	// not hide a different defect behind another
	var ws []string
	for _, st := range sc.Stages {
		if st != "c3" && st != "rec" && st != "echo" {
			ws = append(ws, st)
		}
	}
	wrappers := "[" + strings.Join(ws, ",") + "]"
	ev := tr.Snapshot()
	desc := func() string {
		var sb strings.Builder
		for _, e := range ev {
			fmt.Fprintf(&sb, "%s(%s vis=%d read=%d %s%s) ", e.Kind, e.ID, len(e.Visible), len(e.Data), e.Verdict, e.Err)
		}
		return fmt.Sprintf("scenario=%s reads=%v handleErr=%v clientErr=%v events: %s", hm.J(sc), sconn.ReadLog, err, clientErr, sb.String())
	}
	if err != nil && strings.Contains(err.Error(), hm.ErrBlockedForever.Error()) {
		err = nil // the echo's copy loop ended because the silent client will never send again
	}
	echoRan := false
	for _, e := range ev {
		if e.Kind == "start" && e.ID == "pre-echo" {
			echoRan = true
		}
	}
	if err != nil {
		x.Fail("handle-error:"+wrappers, "Handle returned an error on a well-formed stream: %v; %s", err, desc())
	}
	o, oTee := 0, -1
	checked := false
	diff := func(got, want []byte) string {
		n := len(got)
		if len(want) < n {
			n = len(want)
		}
		i := 0
		for i < n && got[i] == want[i] {
			i++
		}
		return fmt.Sprintf("got %d bytes, want %d, first difference at %d", len(got), len(want), i)
	}
	for _, e := range ev {
		if e.Kind == "start" && e.ID == "pre-tee" {
			oTee = o // the tee sits wherever the handlers that actually ran before it left the stream
		}
		if e.Kind != "done" {
			continue
		}
		switch e.ID {
		case "c3":
			want := P[min(o, len(P)):min(o+3, len(P))]
			if string(e.Data) != string(want) {
				x.Fail("consume-wrong-bytes:"+wrappers, "consume handler at offset %d read %x want %x; %s", o, e.Data, want, desc())
			}
			o += len(e.Data)
			checked = true
		case "rec":
			want := P[min(o, len(P)):]
			complete := e.Err == "EOF" || e.Err == hm.ErrBlockedForever.Error()
			if !complete {
				x.Fail("rec-error:"+wrappers, "recorder stopped with %q after %d bytes; %s", e.Err, len(e.Data), desc())
			} else if string(e.Data) != string(want) {
				x.Fail("rec-wrong-bytes:"+wrappers, "recorder at offset %d: %s; %s", o, diff(e.Data, want), desc())
			}
			checked = true
		case "branch":
			if oTee >= 0 && branchWaited {
				want := P[min(oTee, len(P)):]
				if string(e.Data) != string(want) {
					x.Fail("tee-branch-wrong-bytes:"+wrappers, "tee branch (tee at offset %d): %s; %s", oTee, diff(e.Data, want), desc())
				}
				checked = true
			}
		}
	}
	_ = fallback
	if echoRan && err == nil {
		var back []byte
		if dup != nil {
			back = dup.C.Received
		} else {
			back = sconn.Written
		}
		{
			want := P[min(o, len(P)):]
			if string(back) != string(want) {
				x.Fail("echo-wrong-bytes:"+wrappers, "echo at offset %d returned: %s; %s", o, diff(back, want), desc())
			}
			checked = true
		}
	}
	// the chain is not silently dropped: when the payload is long enough for every matcher in
	// the scenario (and for the 3 bytes each consume stage takes), the terminal handler runs
	maxK, c3s := 3, 0
	switch sc.KProf {
	case "big0", "bigN", "bigAll":
		maxK = big()
	case "nearN":
		maxK = limit - 3
	}
	for _, st := range sc.Stages {
		if st == "c3" {
			c3s++
		}
	}
	if sc.PLen >= maxK+3*c3s && err == nil && clientErr == nil {
		ran := echoRan
		for _, e := range ev {
			ran = ran || (e.ID == "rec" && (e.Kind == "start" || e.Kind == "done"))
		}
		if !ran {
			x.Fail("terminal-never-ran:"+wrappers, "the stream satisfies every matcher of the chain but its terminal handler never ran; %s", desc())
		}
	}
	if checked {
		rep.Nontrivial++
	}
	x.Observe(len(ev), o, checked, err == nil)
}

// ---- scenario space ------------------------------------------------------------------

func scenarios(tier string, yield func(any) bool) {
	c, M := chunk, limit
	lens := []int{0, 1, c - 1, c, c + 1, 2 * c, M - 1, M, M + 1, M + c, 3 * M}
	if scaled {
		lens = append([]int{2, 3, 4, 5, 6, 7, 9, 11, 12}, lens...)
	}
	tlsLens := []int{0, 1, c + 1, M + 1, 3 * M}
	prefixes := [][]string{{}, {"pp"}, {"tls"}, {"pp", "tls"}, {"tls", "pp"}, {"ppu"}, {"tls", "ppu"}}
	mids := [][]string{{}, {"thr"}, {"tee"}, {"sub"}, {"c3"},
		{"thr", "tee"}, {"c3", "tee"}, {"tee", "c3"}, {"sub", "c3"}, {"c3", "sub"}, {"thr", "sub"}, {"sub", "tee"}, {"tee", "sub"},
		{"subf"}, {"subf", "c3"}, {"c3", "subf"},
		{"thr", "c3", "tee"}, {"c3", "sub", "tee"}, {"thr", "tee", "sub", "c3"}}
	if tier == "quick" {
		mids = mids[:16]
	}
	modes := []string{"full", "peek", "one", "drain"}
	n := 0
	for _, pre := range prefixes {
		isTLS := false
		for _, s := range pre {
			if s == "tls" {
				isTLS = true
			}
		}
		for _, mid := range mids {
			for _, term := range []string{"rec", "echo"} {
				stages := append(append(append([]string{}, pre...), mid...), term)
				for _, layout := range []string{"one", "per"} {
					kps := []string{"small", "big0", "bigN"}
					if layout == "per" {
						// an undecided first route may legitimately be overtaken by a later matching
						// route (C02), which would run the stages out of order: not a C01 scenario
						kps = []string{"small", "bigN", "bigAll"}
						if isTLS {
							kps = kps[:2]
						}
					}
					kps = append(kps, "nearN")
					for _, kp := range kps {
						ls := lens
						if isTLS {
							ls = tlsLens
						}
						for _, l := range ls {
							if kp == "nearN" && l < M-1 {
								continue // can never be decided
							}
							for _, fin := range []bool{true, false} {
								isTee := false
								for _, s := range stages {
									if s == "tee" {
										isTee = true
									}
								}
								if isTee && !fin {
									continue // the tee branch never ends unless the main line sees EOF
								}
								if isTLS && tier == "quick" && (!fin || layout == "one" && kp == "bigN") {
									continue
								}
								n++
								if !yield(&Scn{Stages: stages, Layout: layout, KProf: kp, Mode: modes[n%4], PLen: l, FIN: fin}) {
									return
								}
								if isTLS && fin && (l <= c+1 || tier == "thorough") {
									if !yield(&Scn{Stages: stages, Layout: layout, KProf: kp, Mode: modes[n%4], PLen: l, FIN: fin, TLS12: true}) {
										return
									}
								}
							}
						}
					}
				}
			}
		}
	}
}

func bounds(tier string, sc *Scn) explore.Bounds {
	b := explore.DefaultBounds(1)
	if tier == "thorough" && !has(sc, "tls") {
		b[explore.KRead] = 2
	}
	if scaled && !has(sc, "tls") {
		b[explore.KRead] = 2
		if sc.PLen+len(ppHeader) <= 12 || (sc.PLen <= 12 && !has(sc, "pp") && !has(sc, "ppu")) {
			b[explore.KRead] = explore.Unbounded
		}
		if tier == "thorough" {
			b[explore.KRead]++
		}
	}
	return b
}

func main() {
	part := "real constants (chunk 2048, limit 8192)"
	if scaled {
		part = fmt.Sprintf("scaled constants (chunk %d, limit %d)", chunk, limit)
	}
	runner.Main(&runner.Harness{
		ID:    "C01",
		Level: "model_checking",
		Rule: "handler chains built from the shipped wrapping handlers (proxy_protocol, tls, throttle, tee, subroute) + consume + terminal recorder/echo, as one route or one route per stage, matchers needing 1..3, >half-limit or limit-3 bytes in 4 read styles; position-coded payloads of the boundary lengths {0,1,c-1,c,c+1,2c,M-1,M,M+1,M+c,3M}; half-close or silence (the last bytes alone or together with io.EOF; TLS 1.3 and TLS 1.2 clients); read segmentations from the menu {rest,1,7,c-1,c,c+1,4096,4097} with bounded deviations (all segmentations for streams <=12 bytes with scaled constants); " + part +
			"; non-trivial = executions in which a consuming handler actually ran and its bytes were compared",
		Assumptions: []string{
			"the TLS client is crypto/tls over an in-memory duplex whose server side only observes the client at quiescence (deterministic Kahn network)",
			"tee branch and TLS client run as real goroutines; their outcome is schedule-independent (checked by the determinism replay of any failure)",
			"throttle is configured with a rate too high to ever wait (its timing is C17's subject)",
		},
		Bounds: func(tier string) map[string]any {
			return map[string]any{"read_deviations": map[string]any{"quick": 1, "thorough": 2, "scaled<=12B": "unbounded"}, "chunk": chunk, "limit": limit}
		},
		Scenarios: scenarios,
		Run: func(tier string, scAny any, rep *runner.Report) {
			sc := scAny.(*Scn)
			b := build(sc)
			defer b.cancel()
			ex := explore.New(bounds(tier, sc))
			ex.Stop = rep.Expired
			var seq runner.Seq // the executions share the provisioned handler chain
			seq.Explore(ex, sc, rep, func(x *explore.Exec) { execute(x, sc, b, rep) })
		},
		DecodeScenario: func(raw json.RawMessage) (any, error) {
			sc := &Scn{}
			return sc, json.Unmarshal(raw, sc)
		},
		Replay: func(scAny any, choices []int) []explore.Failure {
			sc := scAny.(*Scn)
			b := build(sc)
			defer b.cancel()
			ex := explore.New(bounds("quick", sc))
			return ex.RunOnce(choices, func(x *explore.Exec) { execute(x, sc, b, runner.NewReport()) }).Failures
		},
		ReplayH: func(hist []runner.HistItem, scAny any, choices []int) []explore.Failure {
			sc := scAny.(*Scn)
			b := build(sc)
			defer b.cancel()
			ex := explore.New(bounds("quick", sc))
			for _, it := range hist {
				ex.RunOnce(it.Choices, func(x *explore.Exec) { execute(x, sc, b, runner.NewReport()) })
			}
			return ex.RunOnce(choices, func(x *explore.Exec) { execute(x, sc, b, runner.NewReport()) }).Failures
		},
		Budget: func(tier string) time.Duration {
			if tier == "thorough" {
				return 25 * time.Minute
			}
			return 100 * time.Second
		},
	})
}
