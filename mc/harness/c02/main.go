//go:build verif

// C02: routes run in order and only when matched; otherwise the fallback runs once.
// Sequential exhaustive exploration of the real RouteList.Compile state machine.
package main

import (
	"context"
	"encoding/json"
	"fmt"
	"sort"
	"strings"
	"time"

	"github.com/caddyserver/caddy/v2"
	"go.uber.org/zap"

	"github.com/mholt/caddy-l4/layer4"
	_ "github.com/mholt/caddy-l4/modules/l4subroute"

	"verif/mc/explore"
	"verif/mc/hm"
	"verif/mc/runner"
)

// ---- configuration space ---------------------------------------------------------

type M struct {
	K   int    `json:"k"`
	Pat string `json:"p,omitempty"`
	Not bool   `json:"not,omitempty"`
	// Or (only with Not): the 'not' matcher holds a second matcher set - not(this OR Or);
	// expressible in JSON only
	Or *M `json:"or,omitempty"`
}

type R struct {
	Sets [][]M  `json:"sets,omitempty"` // OR of AND-sets; empty = matches everything
	H    string `json:"h"`              // T terminal | P pass | C1 | C2 consume | S subroute
	Sub  []R    `json:"sub,omitempty"`
}

type Scn struct {
	Routes []R    `json:"routes"`
	Mode   string `json:"mode,omitempty"` // matcher read pattern
	// Rev: matcher sets are built with their matchers in descending instead of ascending id
	// order (production order is Go's map iteration order: both are explored)
	Rev bool `json:"rev,omitempty"`
	// set only in replay files / samples:
	Stream string `json:"stream,omitempty"`
	FIN    bool   `json:"fin,omitempty"`
}

func decM(m M, b []byte) string {
	if m.Not && m.Or != nil {
		// MatchNot evaluates its sets in order: an undecided set leaves the whole matcher
		// undecided, a matching set makes it 'no', none matching makes it 'yes'
		in := m
		in.Not, in.Or = false, nil
		for _, inner := range []M{in, *m.Or} {
			switch decM(inner, b) {
			case "more":
				return "more"
			case "yes":
				return "no"
			}
		}
		return "yes"
	}
	if len(b) < m.K {
		return "more"
	}
	v := true
	switch m.Pat {
	case "":
	case "!":
		v = false
	default:
		v = string(b[:m.K]) == m.Pat
	}
	if m.Not {
		v = !v
	}
	if v {
		return "yes"
	}
	return "no"
}

// decRoute: the router's own left-to-right, stop-at-'more' evaluation.
func decRoute(r R, b []byte) string {
	if len(r.Sets) == 0 {
		return "yes"
	}
	for _, set := range r.Sets {
		v := "yes"
		for _, m := range set {
			d := decM(m, b)
			if d == "more" {
				v = "more"
				break
			}
			if d == "no" {
				v = "no"
			}
		}
		if v != "no" {
			return v
		}
	}
	return "no"
}

var (
	mA   = M{K: 0}
	mN   = M{K: 0, Pat: "!"}
	ma1  = M{K: 1, Pat: "a"}
	mb1  = M{K: 1, Pat: "b"}
	mx1  = M{K: 1}
	mab  = M{K: 2, Pat: "ab"}
	maa  = M{K: 2, Pat: "aa"}
	mx2  = M{K: 2}
	maab = M{K: 3, Pat: "aab"}
	mx3  = M{K: 3}
)

func not(m M) M { m.Not = true; return m }

func notOr(a, b M) M { a.Not = true; a.Or = &b; return a }

func matcherMenu(full bool) [][][]M {
	one := func(m M) [][]M { return [][]M{{m}} }
	menu := [][][]M{
		nil, one(ma1), one(mab), one(mx2), one(mN), one(maab), one(not(ma1)), one(mb1), one(notOr(ma1, mab)),
	}
	if full {
		menu = append(menu,
			one(mA), one(maa), one(mx3), one(not(mab)), one(mx1),
			[][]M{{mx2, not(mab)}}, [][]M{{mx1, not(ma1)}}, one(notOr(maa, mb1)), one(notOr(mb1, maab)),
			[][]M{{ma1}, {mab}}, [][]M{{mab}, {ma1}}, [][]M{{maab}, {mb1}}, [][]M{{mN}, {mx2}},
		)
	}
	return menu
}

func subMenu() [][]R {
	one := func(m M) [][]M { return [][]M{{m}} }
	return [][]R{
		{},
		{{Sets: one(ma1), H: "T"}},
		{{Sets: one(mab), H: "P"}},
		{{Sets: one(mx2), H: "C1"}, {Sets: one(mb1), H: "T"}},
		{{Sets: one(mN), H: "T"}, {Sets: one(mx3), H: "T"}},
	}
}

func routeVariants(full, withSub bool) []R {
	var out []R
	hs := []string{"T", "P", "C1"}
	if full {
		hs = append(hs, "C2")
	}
	for _, sets := range matcherMenu(full) {
		for _, h := range hs {
			out = append(out, R{Sets: sets, H: h})
		}
		if withSub {
			for _, sub := range subMenu() {
				out = append(out, R{Sets: sets, H: "S", Sub: sub})
			}
		}
	}
	return out
}

func scenarios(tier string, yield func(any) bool) {
	modes := []string{"full", "peek", "one", "drain"}
	hasAnd := func(rs []R) bool {
		var rec func(rs []R) bool
		rec = func(rs []R) bool {
			for _, r := range rs {
				for _, set := range r.Sets {
					if len(set) > 1 {
						return true
					}
				}
				if rec(r.Sub) {
					return true
				}
			}
			return false
		}
		return rec(rs)
	}
	emit := func(rs []R, i int) bool {
		if !yield(&Scn{Routes: rs, Mode: modes[i%len(modes)]}) {
			return false
		}
		if hasAnd(rs) { // the other order of the matchers inside an AND-set
			return yield(&Scn{Routes: rs, Mode: modes[i%len(modes)], Rev: true})
		}
		return true
	}
	n := 0
	if !emit([]R{}, n) {
		return
	}
	full1 := routeVariants(true, true)
	for _, a := range full1 {
		n++
		if !emit([]R{a}, n) {
			return
		}
	}
	two := routeVariants(true, tier == "thorough")
	for _, a := range two {
		for _, b := range two {
			n++
			if !emit([]R{a, b}, n) {
				return
			}
		}
	}
	three := routeVariants(tier == "thorough", false)
	for _, a := range three {
		for _, b := range three {
			for _, c := range three {
				n++
				if !emit([]R{a, b, c}, n) {
					return
				}
			}
		}
	}
	// a few nested/sub + 3-route combos
	subs := routeVariants(false, true)
	for _, a := range subs {
		if a.H != "S" {
			continue
		}
		for _, b := range three {
			for _, c := range three {
				n++
				if !emit([]R{b, a, c}, n) {
					return
				}
			}
		}
	}
}

// ---- building the real route list --------------------------------------------------

func matcherJSON(m M, id, mode string) (string, json.RawMessage) {
	need := map[string]any{"id": id, "k": m.K, "pat": m.Pat, "mode": mode}
	if m.Not {
		sets := []map[string]any{{"h_need": need}}
		if m.Or != nil {
			sets = append(sets, map[string]any{"h_need": map[string]any{"id": id + "|", "k": m.Or.K, "pat": m.Or.Pat, "mode": mode}})
		}
		return "not", hm.J(sets)
	}
	return "h_need", hm.J(need)
}

func routesJSON(rs []R, prefix, mode string) []map[string]any {
	out := []map[string]any{}
	for i, r := range rs {
		rid := fmt.Sprintf("%s%d", prefix, i)
		route := map[string]any{}
		var sets []map[string]json.RawMessage
		for j, set := range r.Sets {
			ms := map[string]json.RawMessage{}
			for k, m := range set {
				name, raw := matcherJSON(m, fmt.Sprintf("%s.%d.%d", rid, j, k), mode)
				if _, dup := ms[name]; dup {
					if name == "h_need" {
						name = "h_need2"
					} else {
						panic("two matchers of one kind in a set")
					}
				}
				ms[name] = raw
			}
			sets = append(sets, ms)
		}
		if len(sets) > 0 {
			route["match"] = sets
		}
		var hs []map[string]any
		switch r.H {
		case "T":
			hs = []map[string]any{{"handler": "h_rec", "id": rid, "buf": 3}}
		case "P":
			hs = []map[string]any{{"handler": "h_pass", "id": rid}}
		case "C1":
			hs = []map[string]any{{"handler": "h_consume", "id": rid, "n": 1}}
		case "C2":
			hs = []map[string]any{{"handler": "h_consume", "id": rid, "n": 2}}
		case "S":
			hs = []map[string]any{
				{"handler": "h_pass", "id": rid},
				{"handler": "subroute", "routes": routesJSON(r.Sub, rid+"/", mode), "matching_timeout": "1s"},
				{"handler": "h_pass", "id": rid + "/ft"},
			}
		}
		route["handle"] = hs
		out = append(out, route)
	}
	return out
}

type built struct {
	routes layer4.RouteList
	cancel context.CancelFunc
}

func needID(m layer4.ConnMatcher) string {
	switch t := m.(type) {
	case *hm.Need:
		return t.ID
	}
	return fmt.Sprintf("~%T", m)
}

func build(sc *Scn) *built {
	layer4.VerifSetOrder = func(ms layer4.MatcherSet) layer4.MatcherSet {
		sort.SliceStable(ms, func(i, j int) bool {
			if sc.Rev {
				return needID(ms[i]) > needID(ms[j])
			}
			return needID(ms[i]) < needID(ms[j])
		})
		return ms
	}
	var rl layer4.RouteList
	if err := json.Unmarshal(hm.J(routesJSON(sc.Routes, "", sc.Mode)), &rl); err != nil {
		panic(err)
	}
	ctx, cancel := caddy.NewContext(caddy.Context{Context: context.Background()})
	if err := rl.Provision(ctx); err != nil {
		panic(fmt.Sprintf("provision: %v", err))
	}
	return &built{routes: rl, cancel: cancel}
}

// ---- one execution + oracle --------------------------------------------------------

var nop = zap.NewNop()

func execute(x *explore.Exec, sc *Scn, b *built, stream string, fin bool) {
	conn := hm.NewSConn(x, []byte(stream), fin)
	conn.EOFWithData = true // the last bytes may arrive together with end-of-stream
	conn.TimeoutAlt = true
	tr := &hm.Trace{}
	fallbacks := 0
	next := layer4.HandlerFunc(func(cx *layer4.Connection) error {
		fallbacks++
		tr.Add(hm.Event{Kind: "fallback", ID: "fb", Visible: append([]byte(nil), cx.MatchingBytes()...)})
		// (whether the matching deadline is still armed here is C05's business, not C02's)
		conn.TimeoutAlt = false
		data, err := hm.ReadAll(cx, 3, 0)
		es := ""
		if err != nil {
			es = err.Error()
		}
		tr.Add(hm.Event{Kind: "done", ID: "fb", Data: data, Err: es})
		return nil
	})
	h := b.routes.Compile(nop, time.Second, next)
	cx := layer4.WrapConnection(conn, make([]byte, 0, 16), nop)
	hm.Attach(cx, tr)
	err := h.Handle(cx)
	final := append([]byte(nil), cx.MatchingBytes()...)
	w := &walker{x: x, sc: sc, s: []byte(stream), ev: tr.Events, conn: conn, final: final, fin: fin}
	if err != nil {
		x.Fail("handle-error", "Handle returned %v", err)
	}
	w.run()
	if fallbacks > 1 {
		x.Fail("fallback-twice", "fallback invoked %d times", fallbacks)
	}
	x.Observe(w.summary.String(), conn.ReadLog)
}

type frame struct {
	rs []R
	p  int
}

type walker struct {
	x       *explore.Exec
	sc      *Scn
	s       []byte
	ev      []hm.Event
	i       int
	o       int // bytes consumed by handlers so far
	conn    *hm.SConn
	final   []byte
	fin     bool
	stack   []*frame
	summary strings.Builder
}

func (w *walker) peek() *hm.Event {
	if w.i < len(w.ev) {
		return &w.ev[w.i]
	}
	return nil
}

func (w *walker) ctx() string {
	var sb strings.Builder
	for _, e := range w.ev {
		fmt.Fprintf(&sb, "%s(%s vis=%q %s data=%q %s) ", e.Kind, e.ID, e.Visible, e.Verdict, e.Data, e.Err)
	}
	return fmt.Sprintf("stream=%q fin=%v reads=%v trace: %s", w.s, w.fin, w.conn.ReadLog, sb.String())
}

func (w *walker) visibleOK(e *hm.Event) {
	end := w.o + len(e.Visible)
	if end > len(w.s) || string(w.s[w.o:end]) != string(e.Visible) {
		w.x.Fail("buffer-not-stream", "at %s(%s) the buffered unread bytes %q are not the stream at offset %d; %s", e.Kind, e.ID, e.Visible, w.o, w.ctx())
	}
}

func (w *walker) run() {
	res := w.list(w.sc.Routes, "", true)
	if w.i != len(w.ev) {
		e := w.peek()
		w.x.Fail("ran-after-end", "event %s(%s) after the list ended with %s; %s", e.Kind, e.ID, res, w.ctx())
	}
	fmt.Fprintf(&w.summary, "=%s", res)
}

// list walks the events of one route list execution; returns terminal | fallthrough | abort.
func (w *walker) list(rs []R, prefix string, top bool) string {
	f := &frame{rs: rs, p: -1}
	w.stack = append(w.stack, f)
	defer func() { w.stack = w.stack[:len(w.stack)-1] }()
	for {
		e := w.peek()
		if e == nil {
			return w.abort()
		}
		own := strings.HasPrefix(e.ID, prefix) && !strings.Contains(e.ID[len(prefix):], "/")
		isFT := !top && e.ID == prefix+"ft"
		switch {
		case isFT && e.Kind == "start":
			// the subroute called its next handler: nested fallback
			w.visibleOK(e)
			w.checkFallback(f, prefix, e)
			w.i += 2 // start+done of the ft pass
			return "fallthrough"
		case e.Kind == "match" && own:
			w.visibleOK(e)
			var ri, si, mi int
			fmt.Sscanf(e.ID[len(prefix):], "%d.%d.%d", &ri, &si, &mi)
			if ri <= f.p {
				w.x.Fail("matcher-of-finished-route", "matcher %s evaluated after route %d already ran; %s", e.ID, f.p, w.ctx())
			}
			m := rs[ri].Sets[si][mi]
			if strings.HasSuffix(e.ID, "|") && m.Or != nil {
				m = *m.Or // the matcher of the 'not' matcher's second set
			}
			m.Not, m.Or = false, nil
			if want := decM(m, e.Visible); want != e.Verdict {
				w.x.Fail("harness-matcher-verdict", "matcher %s on %q said %s, reference %s; %s", e.ID, e.Visible, e.Verdict, want, w.ctx())
			}
			w.i++
		case e.Kind == "start" && own:
			var ri int
			fmt.Sscanf(e.ID[len(prefix):], "%d", &ri)
			w.visibleOK(e)
			B := e.Visible
			fmt.Fprintf(&w.summary, "%s@%d ", e.ID, w.o)
			if ri <= f.p {
				w.x.Fail("order", "route %s started after route %d of the same list; %s", e.ID, f.p, w.ctx())
			}
			if d := decRoute(rs[ri], B); d != "yes" {
				w.x.Fail("ran-unmatched", "route %s started although its matchers evaluate to %s on %q; %s", e.ID, d, B, w.ctx())
			}
			for q := f.p + 1; q < ri; q++ {
				if decRoute(rs[q], B) == "yes" {
					w.x.Fail("passed-over", "route %s started although earlier route %s%d matches %q; %s", e.ID, prefix, q, B, w.ctx())
				}
			}
			w.i++
			r := rs[ri]
			switch r.H {
			case "T", "C1", "C2", "P":
				d := w.peek()
				if d == nil || d.Kind != "done" || d.ID != e.ID {
					w.x.Fail("trace-shape", "handler %s did not finish; %s", e.ID, w.ctx())
					return "terminal"
				}
				w.i++
				end := w.o + len(d.Data)
				if end > len(w.s) || string(w.s[w.o:end]) != string(d.Data) {
					w.x.Fail("handler-read-wrong-bytes", "handler %s read %q, stream from offset %d is %q; %s", e.ID, d.Data, w.o, w.s[w.o:], w.ctx())
				}
				w.o = end
				if r.H == "T" {
					if w.fin && w.o != len(w.s) {
						w.x.Fail("handler-read-short", "terminal handler %s stopped at offset %d of %d (%s); %s", e.ID, w.o, len(w.s), d.Err, w.ctx())
					}
					return "terminal"
				}
				if d.Err != "" {
					return "terminal" // consume gave up (stream too short)
				}
				f.p = ri
			case "S":
				d := w.peek()
				if d == nil || d.Kind != "done" || d.ID != e.ID {
					w.x.Fail("trace-shape", "pass %s did not finish; %s", e.ID, w.ctx())
					return "terminal"
				}
				w.i++
				res := w.list(r.Sub, e.ID+"/", false)
				if res != "fallthrough" {
					return "terminal"
				}
				f.p = ri
			}
		case e.Kind == "fallback" && top:
			w.visibleOK(e)
			w.checkFallback(f, prefix, e)
			w.i++
			d := w.peek()
			if d == nil || d.Kind != "done" {
				w.x.Fail("trace-shape", "fallback did not finish; %s", w.ctx())
				return "fallthrough"
			}
			w.i++
			end := w.o + len(d.Data)
			if end > len(w.s) || string(w.s[w.o:end]) != string(d.Data) || (w.fin && end != len(w.s)) {
				w.x.Fail("fallback-stream-not-intact", "fallback read %q, stream from offset %d is %q; %s", d.Data, w.o, w.s[w.o:], w.ctx())
			}
			w.o = end
			return "fallthrough"
		default:
			w.x.Fail("trace-shape", "unexpected event %s(%s) in list %q; %s", e.Kind, e.ID, prefix, w.ctx())
			w.i = len(w.ev)
			return "terminal"
		}
	}
}

func (w *walker) checkFallback(f *frame, prefix string, e *hm.Event) {
	fmt.Fprintf(&w.summary, "%sfb@%d ", prefix, w.o)
	for q := f.p + 1; q < len(f.rs); q++ {
		if d := decRoute(f.rs[q], e.Visible); d != "no" {
			w.x.Fail("fallback-while-"+d, "fallback of list %q ran although route %d evaluates to %s on %q; %s", prefix, q, d, e.Visible, w.ctx())
		}
	}
}

// abort: the events ended without terminal handler or fallback.  Legal iff matching
// ended by timeout or end of stream while some list on the stack still had an undecided
// route (and every list nested inside it could fall through).
func (w *walker) abort() string {
	B := w.final
	end := w.o + len(B)
	if end > len(w.s) || string(w.s[w.o:end]) != string(B) {
		w.x.Fail("buffer-not-stream", "at abort the buffered bytes %q are not the stream at offset %d; %s", B, w.o, w.ctx())
	}
	reason := ""
	if w.conn.TimedOut {
		reason = "timeout"
	} else if w.fin && w.conn.Pos == len(w.s) && len(w.conn.ReadLog) > 0 && w.conn.ReadLog[len(w.conn.ReadLog)-1] == 0 {
		reason = "eof"
	}
	fmt.Fprintf(&w.summary, "abort(%s)", reason)
	justified := false
	for j := len(w.stack) - 1; j >= 0; j-- {
		f := w.stack[j]
		undecided, allNo := false, true
		for q := f.p + 1; q < len(f.rs); q++ {
			switch decRoute(f.rs[q], B) {
			case "more":
				undecided, allNo = true, false
			case "yes":
				allNo = false
			}
		}
		if undecided {
			justified = true
			break
		}
		if !allNo {
			break // this list had a matching route: neither abort here nor fall through is right
		}
	}
	if reason == "" {
		w.x.Fail("abandoned", "routing ended without handler or fallback and without timeout/EOF; %s", w.ctx())
	} else if !justified {
		w.x.Fail("abandoned-decided", "routing aborted (%s) although no remaining route was undecided on %q; %s", reason, B, w.ctx())
	}
	return "abort"
}

// ---- harness glue -------------------------------------------------------------------

func streams(maxLen int) []string {
	out := []string{""}
	for l, from := 1, 0; l <= maxLen; l++ {
		n := len(out)
		for _, s := range out[from:n] {
			out = append(out, s+"a", s+"b")
		}
		from = n
	}
	return out
}

func bounds(tier string) explore.Bounds {
	b := explore.DefaultBounds(1)
	b[explore.KRead] = explore.Unbounded
	return b
}

func run(tier string, scAny any, rep *runner.Report) {
	sc := scAny.(*Scn)
	b := build(sc)
	defer b.cancel()
	maxLen := 4
	if tier == "thorough" {
		maxLen = 5
	}
	// every execution of this scenario runs through the same provisioned route list, one
	// connection after the other: a failure that only shows after an earlier connection
	// (state kept in a handler across connections) is replayed together with it
	var seq runner.Seq
	for _, s := range streams(maxLen) {
		for _, fin := range []bool{true, false} {
			ex := explore.New(bounds(tier))
			one := *sc
			one.Stream, one.FIN = s, fin
			seq.Explore(ex, &one, rep, func(x *explore.Exec) { execute(x, sc, b, s, fin) })
		}
	}
}

func main() {
	runner.Main(&runner.Harness{
		ID:    "C02",
		Level: "model_checking",
		Rule: "every route list from the matcher/handler menu (1-2 routes full menu, 3 routes reduced menu in quick / full in thorough, nested subroutes) x every stream over {a,b} up to length 4 (5) x half-close or silence x every segmentation of the stream into reads x a timeout in place of any read; " +
			"each execution runs the real RouteList.Compile state machine; distinct = distinct (handler trace, read log) observations",
		Assumptions: []string{
			"matchers are the harness's pure prefix matchers (need k bytes, compare) in four read styles, plus the real 'not' and 'subroute' modules",
			"time is abstracted: a read with an armed deadline may time out at any point (choice), one without data and without deadline blocks forever",
			"two matchers in one AND-set need the same number of bytes; the order of the matchers inside a set (Go map iteration order in production) is decided by the harness through a hook in MatcherSets.FromInterface and both orders are explored",
		},
		Bounds: func(tier string) map[string]any {
			return map[string]any{"read_deviations": "unbounded", "timeout_deviations": 1, "stream_alphabet": "ab", "max_stream_len": map[string]int{"quick": 4, "thorough": 5}[tier]}
		},
		Scenarios: scenarios,
		Run:       run,
		DecodeScenario: func(raw json.RawMessage) (any, error) {
			sc := &Scn{}
			return sc, json.Unmarshal(raw, sc)
		},
		Replay: func(scAny any, choices []int) []explore.Failure {
			sc := scAny.(*Scn)
			b := build(sc)
			defer b.cancel()
			ex := explore.New(bounds("quick"))
			x := ex.RunOnce(choices, func(x *explore.Exec) { execute(x, sc, b, sc.Stream, sc.FIN) })
			return x.Failures
		},
		ReplayH: func(hist []runner.HistItem, scAny any, choices []int) []explore.Failure {
			sc := scAny.(*Scn)
			b := build(sc)
			defer b.cancel()
			ex := explore.New(bounds("quick"))
			for _, it := range hist {
				hs := &Scn{}
				if err := json.Unmarshal(it.Scenario, hs); err != nil {
					panic(err)
				}
				ex.RunOnce(it.Choices, func(x *explore.Exec) { execute(x, sc, b, hs.Stream, hs.FIN) })
			}
			x := ex.RunOnce(choices, func(x *explore.Exec) { execute(x, sc, b, sc.Stream, sc.FIN) })
			return x.Failures
		},
		Budget: func(tier string) time.Duration {
			if tier == "thorough" {
				return 25 * time.Minute
			}
			return 150 * time.Second
		},
	})
}
