//go:build verif

// C04: no remote input makes a matcher (or parsing handler) panic or allocate without
// bound.  Bounded-exhaustive enumeration of byte strings over per-matcher alphabets and
// of systematic mutations of the repository's own protocol messages, each evaluated by
// the real matcher through the real prefetch/freeze path.
package main

import (
	"encoding/hex"
	"encoding/json"
	"fmt"
	"hash/fnv"
	"path/filepath"
	"runtime"
	"strings"
	"syscall"
	"time"

	"github.com/mholt/caddy-l4/layer4"

	"verif/mc/enum"
	"verif/mc/explore"
	"verif/mc/mrun"
	"verif/mc/runner"
)

// allocLimit: our reading of "a small multiple of the matching buffer limit" is
// 64 x MaxMatchingBytes = 512 KiB per Match call.  It is far above the fixed, input-independent
// overhead of the heaviest matcher (the QUIC matcher sets up a throw-away quic-go listener and
// certificate: ~230 KiB whatever the packet says) and far below anything a remote length
// field can request (16 MiB http2 frames, 4 GiB postgres messages).
var allocLimit = uint64(64 * layer4.MaxMatchingBytes)

type Scn struct {
	Spec  mrun.Spec `json:"spec"`
	Kind  string    `json:"kind"` // strings | corpus
	Shard int       `json:"shard"`
	Of    int       `json:"of"`
	Input string    `json:"input,omitempty"` // hex, replay only
}

func stringLen(tier string, spec mrun.Spec) (alpha, maxLen int) {
	costly := spec.Module == "quic" || spec.Module == "http"
	if tier == "thorough" {
		if costly {
			return 14, 5
		}
		return 16, 6
	}
	if costly {
		return 12, 4 // their structured inputs come from the seed corpus
	}
	return 12, 5
}

func scenarios(tier string, yield func(any) bool) {
	for _, sp := range append(mrun.Specs(), mrun.HandlerSpecs()...) {
		if sp.Module == "quic" && tier == "quick" && sp.UDP == false {
			continue
		}
		parts := 8
		for i := 0; i < parts; i++ {
			if !yield(&Scn{Spec: sp, Kind: "strings", Shard: i, Of: parts}) {
				return
			}
		}
		cparts := 4
		if sp.Module == "quic" {
			cparts = 16 // every evaluation that gets past the header check waits ~100 ms inside quic-go
		}
		for i := 0; i < cparts; i++ {
			if !yield(&Scn{Spec: sp, Kind: "corpus", Shard: i, Of: cparts}) {
				return
			}
		}
	}
	// first lines of every length 0..24 made of one filler byte, ended by LF or CRLF, alone and
	// followed by more data: the offsets text parsers compute from the position of the first
	// line end (protocol token, version, CR before LF) all lie in this range
	for _, sp := range append(mrun.Specs(), mrun.HandlerSpecs()...) {
		if sp.Module == "quic" {
			continue
		}
		if !yield(&Scn{Spec: sp, Kind: "lines", Shard: 0, Of: 1}) {
			return
		}
	}
	// the same configurations with their string options written as placeholders (resolved when
	// the module is provisioned): every option set through the environment, and each option in
	// turn resolving to nothing.  Driven with the corpus messages and all their prefixes.
	for _, sp := range append(mrun.Specs(), mrun.HandlerSpecs()...) {
		if sp.Module == "quic" {
			continue
		}
		for _, ph := range mrun.PlaceholderForms(sp) {
			if !yield(&Scn{Spec: ph, Kind: "ph", Shard: 0, Of: 1}) {
				return
			}
		}
	}
}

// load provisions the matcher or parsing handler of a scenario.
func load(sp mrun.Spec) (*mrun.Loaded, *mrun.LoadedHandler, func(), error) {
	if mrun.IsHandler(sp) {
		h, err := mrun.LoadHandler(sp)
		if err != nil {
			return nil, nil, nil, err
		}
		return &mrun.Loaded{Spec: sp}, h, h.Close, nil
	}
	l, err := mrun.Load(sp)
	if err != nil {
		return nil, nil, nil, err
	}
	return l, nil, l.Close, nil
}

type tester struct {
	h     *mrun.LoadedHandler // set for handler scenarios (then l only carries the spec)
	l     *mrun.Loaded
	rep   *runner.Report
	sc    *Scn
	batch [][]byte
	// baseline: bytes one evaluation of the empty input allocates (connection, replacer, ...)
	baseline uint64
	// the input evaluated just before on the same loaded matcher (history of a failure)
	prev    []byte
	hasPrev bool
}

func (t *tester) fail(in []byte, sig, msg string) {
	one := *t.sc
	one.Input = hex.EncodeToString(in)
	if t.hasPrev {
		p := *t.sc
		p.Input = hex.EncodeToString(t.prev)
		t.rep.SetHistory([]runner.HistItem{runner.Item(&p, nil)})
	}
	t.rep.Fail(&one, sig, msg, nil)
	t.rep.SetHistory(nil)
}

func hashStr(s string) uint64 {
	h := fnv.New64a()
	h.Write([]byte(s))
	return h.Sum64()
}

func sigOf(l *mrun.Loaded, v mrun.Verdict) string {
	msg := v.Err
	for _, cut := range []string{" [", " with "} {
		if i := strings.Index(msg, cut); i > 0 {
			msg = msg[:i]
		}
	}
	return fmt.Sprintf("panic:%s:%s:%s", l.Spec.Module, v.PanicSite(), msg)
}

func (t *tester) one(in []byte, measure bool) {
	var before runtime.MemStats
	if measure {
		runtime.ReadMemStats(&before)
	}
	var v mrun.Verdict
	if t.h != nil {
		v = t.h.Eval(in)
	} else {
		cx, _ := mrun.Conn(in, t.l.Spec.UDP)
		v = t.l.Eval(cx)
	}
	t.rep.Executions++
	t.rep.Transitions++
	t.rep.Count("verdict:"+v.V, 1)
	t.rep.States++ // every (configuration, input) pair is enumerated once: a distinct initial state
	if v.V != "more" {
		t.rep.Nontrivial++ // the matcher got far enough to decide (or fail) on this input
	}
	t.rep.Outcome(hashStr(t.l.Spec.Module + "|" + v.V + "|" + v.Err))
	if v.V == "panic" {
		t.fail(in, sigOf(t.l, v), fmt.Sprintf("matcher %s panics on input %x (%d bytes): %s at %s", t.l.Spec, in, len(in), v.Err, v.Stack))
	}
	if measure {
		var after runtime.MemStats
		runtime.ReadMemStats(&after)
		if d := after.TotalAlloc - before.TotalAlloc; d > allocLimit+32*1024 {
			t.fail(in, "alloc:"+t.l.Spec.Module, fmt.Sprintf("matcher %s allocates %d bytes (limit %d) on input %x", t.l.Spec, d, allocLimit, in))
		}
	}
	t.prev, t.hasPrev = append(t.prev[:0], in...), true
}

// flush evaluates the batch, measuring allocation for the whole batch and, only if the
// batch as a whole exceeded the per-call limit, for each input again individually.
func (t *tester) flush() {
	if len(t.batch) == 0 {
		return
	}
	var before, after runtime.MemStats
	runtime.ReadMemStats(&before)
	for _, in := range t.batch {
		t.one(in, false)
	}
	runtime.ReadMemStats(&after)
	if after.TotalAlloc-before.TotalAlloc > allocLimit+uint64(len(t.batch))*(t.baseline+1024) {
		t.rep.Count("batches_remeasured", 1)
		for _, in := range t.batch {
			t.one(in, true)
		}
	}
	t.batch = t.batch[:0]
}

func (t *tester) add(in []byte) {
	t.batch = append(t.batch, append([]byte(nil), in...))
	if len(t.batch) >= 256 {
		t.flush()
	}
}

func run(tier string, scAny any, rep *runner.Report) {
	sc := scAny.(*Scn)
	l, h, closeFn, err := load(sc.Spec)
	if err != nil && sc.Kind == "ph" {
		// an option that resolves to nothing may be refused at provisioning: nothing to drive then
		rep.Scenarios++
		rep.Count("placeholder-forms-refused-at-provision", 1)
		return
	}
	if err != nil {
		rep.Note(fmt.Sprintf("matcher %s does not load: %v", sc.Spec, err))
		rep.Incident("MATCHER-LOAD-FAILED")
		return
	}
	defer closeFn()
	rep.Scenarios++
	t0, n0 := time.Now(), rep.Executions
	t := &tester{l: l, h: h, rep: rep, sc: sc}
	{
		var a, b runtime.MemStats
		runtime.ReadMemStats(&a)
		for i := 0; i < 64; i++ {
			if h != nil {
				h.Eval(nil)
				continue
			}
			cx, _ := mrun.Conn(nil, sc.Spec.UDP)
			l.Eval(cx)
		}
		runtime.ReadMemStats(&b)
		t.baseline = (b.TotalAlloc - a.TotalAlloc) / 64
	}
	dir := filepath.Join("/repo/modules", sc.Spec.Pkg)
	seen := map[string]struct{}{}
	switch sc.Kind {
	case "strings":
		na, ml := stringLen(tier, sc.Spec)
		alpha := enum.Alphabet(dir, na)
		i := 0
		enum.AllStrings(alpha, ml, func(b []byte) bool {
			if i%sc.Of == sc.Shard {
				t.add(b)
			}
			i++
			return i%4096 != 0 || !rep.Expired()
		})
	case "lines":
		for n := 0; n <= 24; n++ {
			for _, fill := range []byte{'A', ' ', '/'} {
				for _, end := range []string{"\n", "\r\n", "\r"} {
					for _, tail := range []string{"", "B", "\r\n", "\n\n"} {
						t.add([]byte(strings.Repeat(string(fill), n) + end + tail))
					}
				}
			}
		}
	case "ph":
		rep.Count("placeholder-forms-driven", 1)
		base := sc.Spec
		base.Form, base.Env = "", nil
		for _, m := range mrun.Seeds(base) {
			if len(m) > 4096 {
				continue
			}
			for n := 0; n <= len(m); n++ {
				if _, dup := seen[string(m[:n])]; !dup {
					seen[string(m[:n])] = struct{}{}
					t.add(m[:n])
				}
			}
		}
	case "corpus":
		corpus := mrun.Seeds(sc.Spec)
		alpha := enum.Alphabet(dir, 12)
		i := 0
		for _, m := range corpus {
			if len(m) > 4096 {
				continue
			}
			if sc.Spec.Module == "quic" {
				// keep the slow matcher to a fixed, small mutation set: every visited prefix,
				// extensions, and substitutions in the first 24 (quick) / 96 (thorough) bytes
				lim := 24
				if tier == "thorough" {
					lim = 96
				}
				alpha = alpha[:4]
				enum.Mutations(m, alpha, func(b []byte) bool {
					d := 0
					for d < len(b) && d < len(m) && b[d] == m[d] {
						d++
					}
					if (len(b) != len(m) || d < lim) && i%sc.Of == sc.Shard {
						if _, dup := seen[string(b)]; !dup && (len(b) == len(m) || len(b) < 64 || len(b) > len(m)-4) {
							seen[string(b)] = struct{}{}
							t.add(b)
						}
					}
					i++
					return !rep.Expired()
				})
				continue
			}
			enum.Mutations(m, alpha, func(b []byte) bool {
				if i%sc.Of == sc.Shard {
					if _, dup := seen[string(b)]; !dup {
						seen[string(b)] = struct{}{}
						t.add(b)
					}
				}
				i++
				return i%1024 != 0 || !rep.Expired()
			})
		}
	}
	t.flush()
	rep.Count("ms:"+sc.Spec.Module+":"+sc.Kind, time.Since(t0).Milliseconds())
	rep.Count("n:"+sc.Spec.Module+":"+sc.Kind, rep.Executions-n0)
	if rep.Expired() {
		rep.Cap("wall-budget")
	}
}

func main() {
	// a runaway allocation must kill one worker, not the machine
	syscall.Setrlimit(syscall.RLIMIT_AS, &syscall.Rlimit{Cur: 48 << 30, Max: 48 << 30})
	runner.Main(&runner.Harness{
		ID:    "C04",
		Level: "model_checking",
		Rule:  "for every shipped matcher configuration (default + filtered, TCP- and UDP-like addresses) and for the proxy_protocol HANDLER (default and with allow lists; a v1/v2 header grid over every command x family/transport incl. LOCAL and UNSPEC, TLVs, self-consistent lengths, as additional corpus): every byte string of length <=5 (6 thorough) over a per-matcher alphabet (generic boundary bytes + the literals of the matcher's own source), plus for every byte-slice/string literal of the module's own tests: every prefix, trailing extensions and every single-position substitution (alphabet, +-1, bit flips); each input is loaded by the real prefetch and judged by the real Match under freeze/unfreeze; oracle: no panic, allocation per call <= 64 x MaxMatchingBytes (measured with runtime.MemStats.TotalAlloc, single-threaded worker); every configuration also in its placeholder forms (all string options given as {env.*} placeholders holding the original values; each string option in turn a placeholder that resolves to nothing), driven with the corpus messages and all their prefixes",
		Assumptions: []string{
			"inputs outside the enumerated alphabets/mutation sets are not covered",
			"allocation is measured per batch of 256 calls against limit + 256 x (baseline of an empty evaluation + 1 KiB) and re-measured per call when a batch exceeds the per-call limit (calls are deterministic)",
			"the QUIC matcher runs natively (its internal goroutines are not scheduled); only panics and allocation are judged",
		},
		Bounds: func(tier string) map[string]any {
			return map[string]any{"alloc_limit_bytes": allocLimit, "string_len": map[string]int{"quick": 5, "thorough": 6}[tier]}
		},
		Scenarios: scenarios,
		Run:       run,
		DecodeScenario: func(raw json.RawMessage) (any, error) {
			sc := &Scn{}
			return sc, json.Unmarshal(raw, sc)
		},
		Replay: func(scAny any, _ []int) []explore.Failure {
			sc := scAny.(*Scn)
			l, h, closeFn, err := load(sc.Spec)
			if err != nil {
				return nil
			}
			defer closeFn()
			in, _ := hex.DecodeString(sc.Input)
			rep := runner.NewReport()
			t := &tester{l: l, h: h, rep: rep, sc: sc}
			t.one(in, true)
			var out []explore.Failure
			for _, f := range rep.Failures {
				out = append(out, explore.Failure{Sig: f.Sig, Msg: f.Msg})
			}
			return out
		},
		ReplayH: func(hist []runner.HistItem, scAny any, _ []int) []explore.Failure {
			sc := scAny.(*Scn)
			l, h, closeFn, err := load(sc.Spec)
			if err != nil {
				return nil
			}
			defer closeFn()
			rep := runner.NewReport()
			t := &tester{l: l, h: h, rep: rep, sc: sc}
			for _, it := range hist {
				hs := &Scn{}
				json.Unmarshal(it.Scenario, hs)
				b, _ := hex.DecodeString(hs.Input)
				t.one(b, false)
			}
			rep = runner.NewReport()
			t.rep = rep
			in, _ := hex.DecodeString(sc.Input)
			t.one(in, true)
			var out []explore.Failure
			for _, f := range rep.Failures {
				out = append(out, explore.Failure{Sig: f.Sig, Msg: f.Msg})
			}
			return out
		},
		Budget: func(tier string) time.Duration {
			if tier == "thorough" {
				return 30 * time.Minute
			}
			return 150 * time.Second
		},
	})
}
