//go:build verif

// C12 (send side): the proxy handler sends one well-formed PROXY header of the configured
// version carrying the client's effective addresses, immediately followed by the client's
// stream; composition with the receiving handler (received header -> sent header).
package main

import (
	"bytes"
	"context"
	"encoding/binary"
	"encoding/json"
	"fmt"
	"io"
	"net"
	"strconv"
	"strings"
	"time"

	"github.com/caddyserver/caddy/v2"
	"go.uber.org/zap"

	"github.com/mholt/caddy-l4/layer4"
	"github.com/mholt/caddy-l4/modules/l4proxy"
	_ "github.com/mholt/caddy-l4/modules/l4proxyprotocol"

	"verif/mc/explore"
	"verif/mc/hm"
	"verif/mc/runner"
	"verif/mc/vnet"
	"verif/mc/vsched"
	"verif/mc/vtime"
)

type Scn struct {
	Send    string `json:"send"`   // v1 | v2
	Recv    string `json:"recv"`   // none | v1-tcp4 | v1-tcp6 | v2-tcp4 | v2-tcp6 | v2-udp4 | v1-unknown | v2-local
	Client  string `json:"client"` // socket address of the client "ip:port"
	Payload int    `json:"payload"`
	Peers   int    `json:"peers"`
	// Other: another proxy handler (another route / server, or the previous configuration
	// before a reload) was provisioned first for the SAME upstream addresses with this
	// proxy_protocol setting ("none" = without one); "" = no other handler
	Other string `json:"other,omitempty"`
}

var v2sig = []byte{0x0D, 0x0A, 0x0D, 0x0A, 0x00, 0x0D, 0x0A, 0x51, 0x55, 0x49, 0x54, 0x0A}

type decoded struct {
	version  int
	local    bool // v2 LOCAL or v1 UNKNOWN: no addresses
	src, dst string
	n        int // header length
}

// decode parses one PROXY header from the start of b (independent of the library in use).
func decode(b []byte) (*decoded, error) {
	if bytes.HasPrefix(b, []byte("PROXY ")) {
		i := bytes.Index(b, []byte("\r\n"))
		if i < 0 || i > 105 {
			return nil, fmt.Errorf("v1 header without CRLF within 107 bytes")
		}
		f := strings.Split(string(b[:i]), " ")
		d := &decoded{version: 1, n: i + 2}
		if len(f) >= 2 && f[1] == "UNKNOWN" {
			d.local = true
			return d, nil
		}
		if len(f) != 6 || (f[1] != "TCP4" && f[1] != "TCP6") {
			return nil, fmt.Errorf("malformed v1 header %q", b[:i])
		}
		for _, p := range f[4:] {
			if v, err := strconv.Atoi(p); err != nil || v < 0 || v > 65535 {
				return nil, fmt.Errorf("bad port in %q", b[:i])
			}
		}
		ip1, ip2 := net.ParseIP(f[2]), net.ParseIP(f[3])
		if ip1 == nil || ip2 == nil || (f[1] == "TCP4") != (ip1.To4() != nil) || (f[1] == "TCP4") != (ip2.To4() != nil) {
			return nil, fmt.Errorf("address family mismatch in %q", b[:i])
		}
		d.src, d.dst = net.JoinHostPort(f[2], f[4]), net.JoinHostPort(f[3], f[5])
		return d, nil
	}
	if len(b) >= 16 && bytes.Equal(b[:12], v2sig) {
		if b[12]>>4 != 2 {
			return nil, fmt.Errorf("v2 version nibble %x", b[12])
		}
		l := int(binary.BigEndian.Uint16(b[14:16]))
		if len(b) < 16+l {
			return nil, fmt.Errorf("v2 header truncated")
		}
		d := &decoded{version: 2, n: 16 + l}
		cmd, fam := b[12]&0xf, b[13]
		if cmd == 0 {
			d.local = true
			return d, nil
		}
		if cmd != 1 {
			return nil, fmt.Errorf("v2 command %d", cmd)
		}
		a := b[16 : 16+l]
		switch fam >> 4 {
		case 1:
			if l < 12 {
				return nil, fmt.Errorf("v2 inet length %d", l)
			}
			d.src = net.JoinHostPort(net.IP(a[0:4]).String(), fmt.Sprint(binary.BigEndian.Uint16(a[8:10])))
			d.dst = net.JoinHostPort(net.IP(a[4:8]).String(), fmt.Sprint(binary.BigEndian.Uint16(a[10:12])))
		case 2:
			if l < 36 {
				return nil, fmt.Errorf("v2 inet6 length %d", l)
			}
			d.src = net.JoinHostPort(net.IP(a[0:16]).String(), fmt.Sprint(binary.BigEndian.Uint16(a[32:34])))
			d.dst = net.JoinHostPort(net.IP(a[16:32]).String(), fmt.Sprint(binary.BigEndian.Uint16(a[34:36])))
		case 0:
			d.local = true
		default:
			return nil, fmt.Errorf("v2 family %x", fam)
		}
		return d, nil
	}
	return nil, fmt.Errorf("no PROXY header at the start of the upstream's stream (%q...)", b[:min(len(b), 16)])
}

func recvHeader(kind string) (hdr []byte, src, dst string) {
	switch kind {
	case "v1-tcp4":
		return []byte("PROXY TCP4 198.51.100.7 203.0.113.9 1234 443\r\n"), "198.51.100.7:1234", "203.0.113.9:443"
	case "v1-tcp6":
		return []byte("PROXY TCP6 2001:db8::7 2001:db8::9 65535 1\r\n"), "[2001:db8::7]:65535", "[2001:db8::9]:1"
	case "v2-tcp4", "v2-udp4":
		p := byte(0x11)
		if kind == "v2-udp4" {
			p = 0x12
		}
		h := append(append([]byte(nil), v2sig...), 0x21, p, 0, 12, 198, 51, 100, 7, 203, 0, 113, 9, 0x04, 0xd2, 0x01, 0xbb)
		return h, "198.51.100.7:1234", "203.0.113.9:443"
	case "v2-tcp6":
		h := append(append([]byte(nil), v2sig...), 0x21, 0x21, 0, 36)
		h = append(h, net.ParseIP("2001:db8::7").To16()...)
		h = append(h, net.ParseIP("2001:db8::9").To16()...)
		h = append(h, 0xff, 0xff, 0, 1)
		return h, "[2001:db8::7]:65535", "[2001:db8::9]:1"
	case "v1-unknown":
		return []byte("PROXY UNKNOWN\r\n"), "", ""
	case "v2-local":
		return append(append([]byte(nil), v2sig...), 0x20, 0x00, 0, 0), "", ""
	}
	return nil, "", ""
}

func payload(n int) []byte {
	p := make([]byte, n)
	for i := range p {
		p[i] = byte('a' + (i*7+i/251)%26)
	}
	return p
}

type result struct {
	out   vsched.Outcome
	ups   [][]byte
	dials []string
}

func execute(x *explore.Exec, sc *Scn) *result {
	res := &result{ups: make([][]byte, sc.Peers)}
	layer4.VerifResetPools()
	res.out = vsched.Run(x, vsched.Options{Horizon: 40000}, func() {
		ctx, cancel := caddy.NewContext(caddy.Context{Context: context.Background()})
		defer cancel()
		nw := vnet.NewNet()
		vnet.Current = nw
		defer func() { vnet.Current = nil }()
		var dial []string
		for p := 0; p < sc.Peers; p++ {
			p := p
			addr := fmt.Sprintf("10.0.0.%d:80", 10+p)
			dial = append(dial, addr)
			nw.Handle(addr, func(client net.Addr) (net.Conn, error) {
				cEnd, sEnd := vnet.Pipe("px-up", "up", client, vnet.TCP("10.0.0.10", 80))
				cEnd.Menu, sEnd.Menu = hm.StdMenu(1), hm.StdMenu(1)
				vsched.GoNamed("upstream", func() {
					b, _ := io.ReadAll(sEnd)
					res.ups[p] = b
					sEnd.Close()
				})
				return cEnd, nil
			})
		}
		var handlers []map[string]any
		if sc.Recv != "none" {
			handlers = append(handlers, map[string]any{"handler": "proxy_protocol"})
		}
		if sc.Other != "" {
			oh := map[string]any{"handler": "proxy", "upstreams": []map[string]any{{"dial": dial}}}
			if sc.Other != "none" {
				oh["proxy_protocol"] = sc.Other
			}
			other := &layer4.Server{}
			if err := json.Unmarshal(hm.J([]map[string]any{{"handle": []map[string]any{oh}}}), &other.Routes); err != nil {
				panic(err)
			}
			if err := other.Provision(ctx, zap.NewNop()); err != nil {
				panic(err)
			}
		}
		ph := map[string]any{"handler": "proxy", "upstreams": []map[string]any{{"dial": dial}}}
		if sc.Send != "none" {
			ph["proxy_protocol"] = sc.Send
		}
		handlers = append(handlers, ph)
		srv := &layer4.Server{}
		if err := json.Unmarshal(hm.J([]map[string]any{{"handle": handlers}}), &srv.Routes); err != nil {
			panic(err)
		}
		if err := srv.Provision(ctx, zap.NewNop()); err != nil {
			panic(err)
		}
		clAddr, _ := net.ResolveTCPAddr("tcp", sc.Client)
		local := vnet.TCP("10.0.0.1", 443)
		if clAddr.IP.To4() == nil {
			local = vnet.TCP("2001:db8:1::1", 443)
		}
		cl, sv := vnet.Pipe("client", "server", clAddr, local)
		sv.Menu = hm.StdMenu(1)
		vsched.GoNamed("handle", func() { layer4.VerifHandle(srv, sv) })
		hdr, _, _ := recvHeader(sc.Recv)
		if len(hdr) > 0 {
			cl.Write(hdr)
		}
		if sc.Payload > 0 {
			cl.Write(payload(sc.Payload))
		}
		cl.CloseWrite()
		io.Copy(io.Discard, cl)
		vtime.Sleep(5 * time.Second)
		res.dials = append(res.dials, nw.Dials...)
	})
	l4proxy.VerifResetPeers()
	return res
}

func sameAddr(a, b string) bool {
	ha, pa, e1 := net.SplitHostPort(a)
	hb, pb, e2 := net.SplitHostPort(b)
	if e1 != nil || e2 != nil {
		return a == b
	}
	return pa == pb && net.ParseIP(ha) != nil && net.ParseIP(ha).Equal(net.ParseIP(hb))
}

func check(x *explore.Exec, sc *Scn, r *result) {
	desc := func() string {
		var sb strings.Builder
		for i, u := range r.ups {
			fmt.Fprintf(&sb, "upstream%d got %d bytes %q; ", i, len(u), u[:min(len(u), 70)])
		}
		return fmt.Sprintf("scenario=%s %sdials=%v blocked=%v", hm.J(sc), sb.String(), r.dials, r.out.Blocked)
	}
	for _, p := range r.out.Panics {
		x.Fail("panic:"+p[strings.LastIndex(p, " at ")+4:], "a thread panicked: %s; %s", p, desc())
	}
	if r.out.Horizon {
		x.Fail("horizon", "step horizon exceeded; %s", desc())
		return
	}
	_, rs, rd := recvHeader(sc.Recv)
	clAddr, _ := net.ResolveTCPAddr("tcp", sc.Client)
	wantSrc, wantDst := clAddr.String(), "10.0.0.1:443"
	if clAddr.IP.To4() == nil {
		wantDst = "[2001:db8:1::1]:443"
	}
	if rs != "" {
		wantSrc, wantDst = rs, rd
	}
	P := payload(sc.Payload)
	for i, u := range r.ups {
		if sc.Send == "none" {
			// no proxy_protocol configured on this handler: the upstream gets the stream as it is
			if string(u) != string(P) {
				x.Fail("header-sent-although-not-configured", "upstream %d received %d bytes starting %q, the client's stream has %d bytes and this handler has no proxy_protocol option; %s", i, len(u), u[:min(len(u), 20)], len(P), desc())
			}
			continue
		}
		d, err := decode(u)
		if err != nil {
			x.Fail("sent-header-malformed:"+sc.Send, "upstream %d: %v; %s", i, err, desc())
			continue
		}
		if want := map[string]int{"v1": 1, "v2": 2}[sc.Send]; d.version != want {
			x.Fail("sent-header-version", "upstream %d received a v%d header, configured is %s; %s", i, d.version, sc.Send, desc())
		}
		if d.local && sc.Send == "v1" && sc.Recv == "v2-udp4" {
			// v1 can only declare TCP4/TCP6: UNKNOWN is the only well-formed v1 header for a
			// client whose effective addresses are UDP
		} else if d.local {
			x.Fail("sent-header-without-addresses:"+sc.Send+":"+sc.Recv, "upstream %d received a header without addresses (LOCAL/UNKNOWN) although the client's effective addresses are %s -> %s; %s", i, wantSrc, wantDst, desc())
		} else if !sameAddr(d.src, wantSrc) || !sameAddr(d.dst, wantDst) {
			x.Fail("sent-header-addresses:"+sc.Send+":"+sc.Recv, "upstream %d received a header declaring %s -> %s, the client's effective addresses are %s -> %s; %s", i, d.src, d.dst, wantSrc, wantDst, desc())
		}
		if rest := u[d.n:]; string(rest) != string(P) {
			x.Fail("stream-after-sent-header", "upstream %d: after the %d-byte header come %d bytes, the client's stream has %d (a second header? %v); %s", i, d.n, len(rest), len(P), bytes.HasPrefix(rest, []byte("PROXY")) || bytes.HasPrefix(rest, v2sig), desc())
		}
	}
	x.Observe(len(r.ups[0]), len(r.out.Blocked))
}

func scenarios(tier string, yield func(any) bool) {
	// another handler was provisioned first for the same upstream addresses
	for _, send := range []string{"v1", "v2", "none"} {
		for _, other := range []string{"v1", "v2", "none"} {
			if send == other {
				continue
			}
			for _, peers := range []int{1, 2} {
				if !yield(&Scn{Send: send, Recv: "none", Client: "192.0.2.7:50000", Payload: 5, Peers: peers, Other: other}) {
					return
				}
			}
		}
	}
	for _, send := range []string{"v1", "v2"} {
		for _, recv := range []string{"none", "v1-tcp4", "v1-tcp6", "v2-tcp4", "v2-tcp6", "v2-udp4", "v1-unknown", "v2-local"} {
			for _, client := range []string{"192.0.2.7:50000", "[2001:db8::99]:50001"} {
				for _, pl := range []int{0, 5, 3000} {
					for _, peers := range []int{1, 2} {
						if peers == 2 && (pl == 3000 || tier != "thorough" && recv != "none") {
							continue
						}
						if !yield(&Scn{Send: send, Recv: recv, Client: client, Payload: pl, Peers: peers}) {
							return
						}
					}
				}
			}
		}
	}
}

func bounds(tier string) (explore.Bounds, int) {
	b := explore.DefaultBounds(1)
	b[explore.KSched] = 3
	b[explore.KTime] = 0
	if tier == "thorough" {
		return b, 3
	}
	return b, 2
}

func main() {
	runner.Main(&runner.Harness{
		ID:          "C12",
		Level:       "model_checking",
		Rule:        "proxy handler configured to send PROXY v1 or v2 x client over IPv4/IPv6 x an optional PROXY header received first by the real receiving handler {none, v1 TCP4/TCP6/UNKNOWN, v2 TCP4/TCP6/UDP4/LOCAL} x payload {0,5,3000} x 1-2 peers; what each upstream receives is decoded by an independent parser written from the HAProxy specification; interleavings within the delay budget (2 quick, 3 thorough)",
		Assumptions: []string{"with v1 UNKNOWN / v2 LOCAL received, the client's effective addresses are the socket's"},
		Scenarios:   scenarios,
		Run: func(tier string, scAny any, rep *runner.Report) {
			sc := scAny.(*Scn)
			b, tot := bounds(tier)
			ex := explore.New(b)
			ex.Total = tot
			ex.Stop = rep.Expired
			vsched.StateSink = rep.State
			ex.Explore(func(x *explore.Exec) { check(x, sc, execute(x, sc)) })
			rep.AddStats(sc, &ex.Stats)
		},
		DecodeScenario: func(raw json.RawMessage) (any, error) {
			sc := &Scn{}
			return sc, json.Unmarshal(raw, sc)
		},
		Replay: func(scAny any, choices []int) []explore.Failure {
			sc := scAny.(*Scn)
			b, _ := bounds("thorough")
			ex := explore.New(b)
			return ex.RunOnce(choices, func(x *explore.Exec) { check(x, sc, execute(x, sc)) }).Failures
		},
		Budget: func(tier string) time.Duration {
			if tier == "thorough" {
				return 15 * time.Minute
			}
			return 90 * time.Second
		},
	})
}
