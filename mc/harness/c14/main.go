//go:build verif

// C14: protocol matchers accept exactly what the wire definition and the configured
// filters say.  Per protocol, a generator enumerates complete first messages over boundary
// grids of their fields (and single-field corruptions) under several filter configurations;
// an independent reference predicate written from the wire definition / the module's
// documented filter semantics decides each case; the real matcher (through the real
// prefetch + freeze/Match path) must agree.
package main

import (
	"encoding/binary"
	"encoding/hex"
	"encoding/json"
	"fmt"
	"net"
	"regexp"
	"strings"
	"time"

	"github.com/caddyserver/caddy/v2"

	"github.com/mholt/caddy-l4/layer4"

	"verif/mc/explore"
	"verif/mc/hm"
	"verif/mc/mrun"
	"verif/mc/runner"
)

type Case struct {
	Proto  string `json:"proto"`
	Module string `json:"module"`
	Config string `json:"config"`
	UDP    bool   `json:"udp,omitempty"`
	Msg    string `json:"msg"` // hex
	Want   string `json:"want"`
	Why    string `json:"why"`
	// connection context for address / time matchers
	Remote string `json:"remote,omitempty"`
	Local  string `json:"local,omitempty"`
	Time   string `json:"time,omitempty"` // RFC3339
}

type gen func(tier string, yield func(Case) bool) bool

func mk(proto, module, cfg string, udp bool, msg []byte, want bool, why string) Case {
	w := "no"
	if want {
		w = "yes"
	}
	return Case{Proto: proto, Module: module, Config: cfg, UDP: udp, Msg: hex.EncodeToString(msg), Want: w, Why: why}
}

// ---------------------------------------------------------------- ssh / xmpp / proxy_protocol

func genSimple(tier string, yield func(Case) bool) bool {
	for _, s := range []string{"SSH-2.0-OpenSSH_9.6\r\n", "SSH-1.99-x\n", "SSH-", "SSH_2.0-x\r\n", "ssh-2.0-x\r\n", " SSH-2.0\r\n", "SSH2.0-abc", "GET / HTTP/1.1\r\n"} {
		if !yield(mk("ssh", "ssh", `{}`, false, []byte(s), strings.HasPrefix(s, "SSH-"), "identification string begins with SSH-")) {
			return false
		}
	}
	pad := strings.Repeat(" ", 60)
	for _, s := range []string{
		"<?xml version='1.0'?><stream:stream to='example.com' xmlns='jabber:client' version='1.0'>",
		"<stream:stream xmlns='jabber:server' xmlns:stream='http://etherx.jabber.org/streams'>" + pad,
		"<?xml version='1.0'?><stream:stream to='example.com' xmlns='other:client' version='1.0'>" + pad,
		"<?xml version='1.0'?>" + pad + "jabber",
		strings.Repeat("x", 44) + "jabber" + pad,
		strings.Repeat("x", 45) + "jabber" + pad,
	} {
		want := len(s) >= 50 && strings.Contains(s[:50], "jabber")
		if !yield(mk("xmpp", "xmpp", `{}`, false, []byte(s), want, "the first 50 bytes contain the jabber namespace")) {
			return false
		}
	}
	v2 := []byte{0x0D, 0x0A, 0x0D, 0x0A, 0x00, 0x0D, 0x0A, 0x51, 0x55, 0x49, 0x54, 0x0A}
	pp := [][]byte{[]byte("PROXY TCP4 192.168.0.1 192.168.0.11 56324 443\r\n"), []byte("PROXY UNKNOWN\r\n"), append(append([]byte(nil), v2...), 0x21, 0x11, 0, 12, 1, 2, 3, 4, 5, 6, 7, 8, 0, 1, 0, 2),
		[]byte("PROXZ TCP4 1.1.1.1 2.2.2.2 1 2\r\n"), []byte("proxy TCP4 1.1.1.1 2.2.2.2 1 2\r\n"), append(append([]byte(nil), v2[:11]...), 0x0B, 0x21, 0x11, 0, 0), []byte("GET / HTTP/1.1\r\n\r\n")}
	for _, m := range pp {
		want := strings.HasPrefix(string(m), "PROXY") || (len(m) >= 12 && string(m[:12]) == string(v2))
		if !yield(mk("proxy_protocol", "proxy_protocol", `{}`, false, m, want, "v1 'PROXY' prefix or the 12-byte v2 signature")) {
			return false
		}
	}
	return true
}

// ---------------------------------------------------------------- postgres

func pgMsg(length uint32, body []byte) []byte {
	b := make([]byte, 4)
	binary.BigEndian.PutUint32(b, length)
	return append(b, body...)
}

func genPostgres(tier string, yield func(Case) bool) bool {
	u32 := func(v uint32) []byte { b := make([]byte, 4); binary.BigEndian.PutUint32(b, v); return b }
	params := func(kv ...string) []byte {
		var b []byte
		for _, s := range kv {
			b = append(b, s...)
			b = append(b, 0)
		}
		return append(b, 0)
	}
	type c struct {
		body []byte
		want bool
		why  string
	}
	cases := []c{
		{u32(80877103), true, "SSLRequest"},
		{append(u32(0x00030000), params("user", "u")...), true, "StartupMessage 3.0 with one parameter"},
		{append(u32(0x00030000), params("user", "alice", "database", "db")...), true, "StartupMessage 3.0 with two parameters"},
		{append(u32(0x00030001), params("user", "u")...), true, "StartupMessage 3.1"},
		{append(u32(0x00040000), params("user", "u")...), true, "protocol 4.0 (major >= 3)"},
		{append(u32(0x00020000), params("user", "u")...), false, "protocol 2.0 is not supported"},
		{append(u32(0x00030000), 0), false, "StartupMessage without parameters"},
		{u32(80877102), false, "request code next to SSLRequest, no parameters"},
		{append(u32(0x00030000), params("user", "")...), true, "StartupMessage with an empty parameter value"},
		{append(append(u32(0x00030000), params("user", "u")...), 'x'), false, "bytes after the terminator of the parameter list"},
		{append(u32(0x00030000), []byte("user\x00u\x00")...), false, "parameter list without its terminating zero byte"},
		{append(u32(0x00030000), []byte("user\x00\x00")...), false, "empty value and no terminating zero byte"},
		{u32(80877104), false, "CancelRequest-like code without parameters"},
	}
	for _, k := range cases {
		if !yield(mk("postgres", "postgres", `{}`, false, pgMsg(uint32(4+len(k.body)), k.body), k.want, k.why)) {
			return false
		}
	}
	// corrupt lengths around a valid startup message
	body := append(u32(0x00030000), params("user", "u")...)
	for _, l := range []uint32{0, 3, 4, 7, 8, uint32(4 + len(body) - 1), 0x7fffffff, 0xffffffff, 8193} {
		why := fmt.Sprintf("declared length %d does not describe a complete startup message", l)
		if !yield(mk("postgres", "postgres", `{}`, false, pgMsg(l, body), false, why)) {
			return false
		}
	}
	return true
}

// ---------------------------------------------------------------- socks4 / socks5

func genSocks(tier string, yield func(Case) bool) bool {
	type cfg struct {
		json  string
		cmds  []byte
		ports []uint16
		nets  []string
	}
	cfgs := []cfg{
		{`{}`, []byte{1, 2}, nil, nil},
		{`{"commands":["CONNECT"]}`, []byte{1}, nil, nil},
		{`{"commands":["bind"]}`, []byte{2}, nil, nil},
		{`{"ports":[80,443]}`, []byte{1, 2}, []uint16{80, 443}, nil},
		{`{"networks":["10.0.0.0/8","192.168.1.1"]}`, []byte{1, 2}, nil, []string{"10.0.0.0/8", "192.168.1.1/32"}},
		{`{"commands":["CONNECT"],"ports":[65535],"networks":["0.0.0.0/0"]}`, []byte{1}, []uint16{65535}, []string{"0.0.0.0/0"}},
		// a filter that no SOCKS4 destination (always IPv4) can satisfy is still a filter
		{`{"networks":["::1"]}`, []byte{1, 2}, nil, []string{"::1/128"}},
		{`{"networks":["fc00::/7","::/0"]}`, []byte{1, 2}, nil, []string{"fc00::/7", "::/0"}},
		{`{"networks":["2001:db8::/32","10.0.0.0/8"]}`, []byte{1, 2}, nil, []string{"2001:db8::/32", "10.0.0.0/8"}},
	}
	for _, c := range cfgs {
		for _, ver := range []byte{4, 5, 0} {
			for _, cmd := range []byte{0, 1, 2, 3} {
				for _, port := range []uint16{0, 80, 443, 65535} {
					for _, ip := range []string{"10.0.0.1", "10.255.255.255", "11.0.0.0", "192.168.1.1", "192.168.1.2", "0.0.0.1"} {
						m := []byte{ver, cmd, byte(port >> 8), byte(port)}
						m = append(m, net.ParseIP(ip).To4()...)
						m = append(m, 'u', 0)
						want := ver == 4
						ok := false
						for _, x := range c.cmds {
							ok = ok || x == cmd
						}
						want = want && ok
						if len(c.ports) > 0 {
							ok = false
							for _, p := range c.ports {
								ok = ok || p == port
							}
							want = want && ok
						}
						if len(c.nets) > 0 {
							ok = false
							for _, n := range c.nets {
								_, nn, _ := net.ParseCIDR(n)
								// an IPv4 destination is in an IPv4 range only (no v4-mapped matching)
								ok = ok || (nn.IP.To4() != nil && nn.Contains(net.ParseIP(ip)))
							}
							want = want && ok
						}
						if !yield(mk("socks4", "socks4", c.json, false, m, want, "version 4, command/port/network filters")) {
							return false
						}
					}
				}
			}
		}
	}
	type c5 struct {
		json string
		ok   map[byte]bool
	}
	for _, c := range []c5{{`{}`, map[byte]bool{0: true, 1: true, 2: true}}, {`{"auth_methods":[0]}`, map[byte]bool{0: true}}, {`{"auth_methods":[2,128]}`, map[byte]bool{2: true, 128: true}}} {
		for _, ver := range []byte{5, 4, 6} {
			for _, ms := range [][]byte{{}, {0}, {2}, {0, 2}, {1}, {128}, {2, 128}, {0, 1, 2}, {255}, {0, 255},
				// a client may offer a method more than once: the list is then longer than the
				// configured one although every offered method is configured (or one is not)
				{0, 0}, {2, 2, 2}, {0, 1, 2, 2}, {0, 2, 0, 2, 0}, {2, 128, 2}, {0, 0, 3}, {2, 2, 2, 1}} {
				m := append([]byte{ver, byte(len(ms))}, ms...)
				want := ver == 5
				for _, x := range ms {
					want = want && c.ok[x]
				}
				if !yield(mk("socks5", "socks5", c.json, false, m, want, "version 5 and every offered method is configured")) {
					return false
				}
			}
		}
	}
	return true
}

// ---------------------------------------------------------------- regexp

func genRegexp(tier string, yield func(Case) bool) bool {
	type c struct {
		pat   string
		count int
	}
	for _, k := range []c{{"^GET", 0}, {"a.c$", 3}, {"^\\x16\\x03", 9}, {"^[A-Z]+ /", 6}, {"^$", 0}} {
		cfg := fmt.Sprintf(`{"pattern":%q,"count":%d}`, k.pat, k.count)
		n := k.count
		if n == 0 {
			n = 4
			cfg = fmt.Sprintf(`{"pattern":%q}`, k.pat)
		}
		re := regexp.MustCompile(k.pat)
		for _, s := range []string{"GET / HTTP/1.1\r\n", "GETX", "get ", "abc", "a\nc", "xabc", "abcd", "\x16\x03\x01\x00\x05\x01\x00\x00\x01\x00", "POST /x", "PoST /", "AB /cd", "    "} {
			if len(s) < n {
				continue // not a complete first message for this count
			}
			if !yield(mk("regexp", "regexp", cfg, false, []byte(s), re.MatchString(s[:n]), fmt.Sprintf("pattern applied to the first %d bytes", n))) {
				return false
			}
		}
	}
	return true
}

// ---------------------------------------------------------------- wireguard

func genWireGuard(tier string, yield func(Case) bool) bool {
	for _, zero := range []uint32{0, 1, 0xffffffff, 0x00010000} {
		cfg := fmt.Sprintf(`{"zero":%d}`, zero)
		if zero == 0 {
			cfg = `{}`
		}
		for _, n := range []int{148, 32, 31, 33, 147, 149, 92, 64, 16} {
			for _, typ := range []uint32{1, 4, 2, 3, 0, 1 | (zero &^ 0xff), 4 | (zero &^ 0xff), 1 | 0x100, 0x01000000} {
				m := make([]byte, n)
				binary.LittleEndian.PutUint32(m, typ)
				for i := 4; i < n; i++ {
					m[i] = byte(i)
				}
				res := zero &^ 0xff
				want := (n == 148 && typ == (1|res)) || (n == 32 && typ == (4|res))
				if !yield(mk("wireguard", "wireguard", cfg, true, m, want, "148-byte initiation (type 1) or 32-byte keepalive (type 4) with the configured reserved bytes")) {
					return false
				}
			}
		}
	}
	return true
}

// ---------------------------------------------------------------- openvpn (plain mode)

func genOpenVPN(tier string, yield func(Case) bool) bool {
	for _, cfg := range []string{`{}`, `{"modes":["plain"]}`, `{"modes":["auth"],"ignore_timestamp":true}`} {
		plainOK := !strings.Contains(cfg, `"auth"`)
		for _, udp := range []bool{true, false} {
			for _, op := range []byte{0x38, 0x39, 0x40, 0x20, 0x50} { // opcode<<3 | keyid
				for _, sid := range []uint64{0, 1, 0xffffffffffffffff} {
					for _, acks := range []byte{0, 1} {
						for _, pid := range []uint32{0, 1} {
							body := []byte{op}
							b8 := make([]byte, 8)
							binary.BigEndian.PutUint64(b8, sid)
							body = append(body, b8...)
							body = append(body, acks)
							b4 := make([]byte, 4)
							binary.BigEndian.PutUint32(b4, pid)
							body = append(body, b4...)
							m := body
							if !udp {
								m = append([]byte{0, byte(len(body))}, body...)
							}
							want := plainOK && op == 0x38 && sid != 0 && acks == 0 && pid == 0
							if !yield(mk("openvpn", "openvpn", cfg, udp, m, want, "P_CONTROL_HARD_RESET_CLIENT_V2, key id 0, non-zero session id, no acks, packet id 0 (plain mode enabled)")) {
								return false
							}
						}
					}
				}
			}
		}
	}
	// auth mode (tls-auth) client resets, no group key configured (so the HMAC cannot be and is
	// not verified): opcode | session id | HMAC | replay packet id 1 | time | no acks | packet
	// id 0, for the HMAC size of every digest family OpenVPN offers - the largest (64 bytes) is
	// the largest message of this kind - over UDP and, with the 2-byte length prefix, over TCP
	for _, cfg := range []string{`{"modes":["auth"],"ignore_timestamp":true}`, `{"ignore_timestamp":true}`} {
		for _, udp := range []bool{true, false} {
			for _, d := range []int{16, 20, 28, 32, 48, 64} {
				for _, rpid := range []uint32{1, 2} {
					for _, lenOff := range []int{0, 1, -1} {
						if udp && lenOff != 0 {
							continue
						}
						body := []byte{0x38, 0, 0, 0, 0, 0, 0, 0, 9}
						for i := 0; i < d; i++ {
							body = append(body, byte(0x5a+i))
						}
						body = binary.BigEndian.AppendUint32(body, rpid)
						body = binary.BigEndian.AppendUint32(body, 1700000000)
						body = append(body, 0)
						body = binary.BigEndian.AppendUint32(body, 0)
						m := body
						if !udp {
							m = append([]byte{0, byte(len(body) + lenOff)}, body...)
						}
						want := rpid == 1 && lenOff == 0
						if !yield(mk("openvpn", "openvpn", cfg, udp, m, want, fmt.Sprintf("tls-auth client reset with a %d-byte HMAC, replay packet id 1, consistent length (no key configured: HMAC not verified)", d))) {
							return false
						}
					}
				}
			}
		}
	}
	return true
}

// ---------------------------------------------------------------- winbox

func winboxAuth(user string, key int, parity byte) []byte {
	body := append([]byte(user), 0)
	for i := 0; i < key; i++ {
		body = append(body, byte(0xA0+i))
	}
	body = append(body, parity)
	var out []byte
	for i := 0; len(body) > 0; i++ {
		n := min(len(body), 255)
		tag := byte(0x06)
		if i > 0 {
			tag = 0xff
		}
		out = append(out, byte(n), tag)
		out = append(out, body[:n]...)
		body = body[n:]
	}
	return out
}

var winboxUserRe = regexp.MustCompile("^[0-9A-Za-z](?:[-#.0-9@A-Z_a-z]+[0-9A-Za-z])?$")

func genWinbox(tier string, yield func(Case) bool) bool {
	type cfg struct {
		json       string
		std, romon bool
		user       string
		re         *regexp.Regexp
	}
	cfgs := []cfg{
		{`{}`, true, true, "", nil},
		{`{"modes":["standard"]}`, true, false, "", nil},
		{`{"modes":["romon"]}`, false, true, "", nil},
		{`{"username":"admin"}`, true, true, "admin", nil},
		{`{"username_regexp":"^adm"}`, true, true, "", regexp.MustCompile("^adm")},
		{`{"modes":["romon"],"username":"toms"}`, false, true, "toms", nil},
	}
	users := []string{"admin", "a", "toms+r", "admin+r", "ab", "a.b", "-bad", "bad-", "a b", "adm#1@x_y", strings.Repeat("b", 230), strings.Repeat("c", 221), "a+r+r"}
	for _, c := range cfgs {
		for _, u := range users {
			for _, key := range []int{32, 31, 33} {
				for _, parity := range []byte{0, 1, 2} {
					m := winboxAuth(u, key, parity)
					romon := strings.HasSuffix(u, "+r")
					name := strings.TrimSuffix(u, "+r")
					want := key == 32 && parity <= 1 && winboxUserRe.MatchString(name) && len(u) >= 1
					if romon {
						want = want && c.romon
					} else {
						want = want && c.std
					}
					if c.user != "" {
						want = want && name == c.user
					} else if c.re != nil {
						want = want && c.re.MatchString(name)
					}
					if !yield(mk("winbox", "winbox", c.json, false, m, want, "auth message: valid username, 32-byte key, parity 0/1, mode and username filters")) {
						return false
					}
				}
			}
		}
	}
	// single-field corruptions of the chunk framing: the type byte of every chunk set to each
	// other value of interest (the first chunk is typed 0x06, every later one 0xff, nothing else)
	for _, u := range []string{"admin", strings.Repeat("b", 230), strings.Repeat("c", 222), strings.Repeat("d", 255)} {
		m := winboxAuth(u, 32, 1)
		for off, i := 0, 0; off+1 < len(m); off, i = off+2+int(m[off]), i+1 {
			for _, t := range []byte{0x06, 0xff, 0x00, 0x05, 0x07, 0xfe} {
				if t == m[off+1] {
					continue
				}
				x := append([]byte(nil), m...)
				x[off+1] = t
				if !yield(mk("winbox", "winbox", `{}`, false, x, false, fmt.Sprintf("auth message whose chunk %d carries type %#x", i, t))) {
					return false
				}
			}
		}
	}
	return true
}

// ---------------------------------------------------------------- dns

type dnsQ struct {
	name  string
	qtype uint16
	class uint16
}

func dnsMsg(flags uint16, qs []dnsQ, qdcount int, extra []byte) []byte {
	b := []byte{0x12, 0x34, byte(flags >> 8), byte(flags), 0, byte(qdcount), 0, 0, 0, 0, 0, 0}
	for _, q := range qs {
		for _, l := range strings.Split(strings.TrimSuffix(q.name, "."), ".") {
			if l == "" {
				continue
			}
			b = append(b, byte(len(l)))
			b = append(b, l...)
		}
		b = append(b, 0, byte(q.qtype>>8), byte(q.qtype), byte(q.class>>8), byte(q.class))
	}
	return append(b, extra...)
}

var dnsTypes = map[uint16]string{1: "A", 28: "AAAA", 10: "NULL", 16: "TXT"}
var dnsClasses = map[uint16]string{1: "IN", 3: "CH", 4: "HS"}

type dnsRule struct {
	name, typ, class string
	nameRe, classRe  *regexp.Regexp
}

func (r dnsRule) match(q dnsQ) bool {
	if r.class != "" && dnsClasses[q.class] != r.class {
		return false
	}
	if r.classRe != nil && !r.classRe.MatchString(dnsClasses[q.class]) {
		return false
	}
	if r.typ != "" && dnsTypes[q.qtype] != r.typ {
		return false
	}
	if r.name != "" && q.name != r.name {
		return false
	}
	if r.nameRe != nil && !r.nameRe.MatchString(q.name) {
		return false
	}
	return true
}

func genDNS(tier string, yield func(Case) bool) bool {
	type cfg struct {
		json         string
		allow, deny  []dnsRule
		defDeny, pre bool
	}
	exRe := regexp.MustCompile(`^(|[-0-9a-z]+\.)example\.com\.$`)
	chRe := regexp.MustCompile(`^(CH|HS)$`)
	var cfgs []cfg
	for _, dd := range []bool{false, true} {
		for _, pa := range []bool{false, true} {
			flags := fmt.Sprintf(`"default_deny":%v,"prefer_allow":%v`, dd, pa)
			cfgs = append(cfgs,
				cfg{`{` + flags + `}`, nil, nil, dd, pa},
				cfg{`{"allow":[{"name":"example.com."}],` + flags + `}`, []dnsRule{{name: "example.com."}}, nil, dd, pa},
				cfg{`{"deny":[{"type":"NULL"},{"class_regexp":"^(CH|HS)$"}],` + flags + `}`, nil, []dnsRule{{typ: "NULL"}, {classRe: chRe}}, dd, pa},
				cfg{`{"allow":[{"name_regexp":"^(|[-0-9a-z]+\\.)example\\.com\\.$","type":"A"}],"deny":[{"name":"evil.example.com."}],` + flags + `}`,
					[]dnsRule{{nameRe: exRe, typ: "A"}}, []dnsRule{{name: "evil.example.com."}}, dd, pa},
			)
		}
	}
	names := []string{"example.com.", "www.example.com.", "evil.example.com.", "example.org.", "."}
	for _, c := range cfgs {
		for _, udp := range []bool{true, false} {
			emit := func(raw []byte, valid bool, qs []dnsQ, why string) bool {
				want := valid
				if valid && (len(c.allow) > 0 || len(c.deny) > 0) {
					for _, q := range qs {
						denied, allowed := false, false
						for _, r := range c.deny {
							denied = denied || r.match(q)
						}
						for _, r := range c.allow {
							allowed = allowed || r.match(q)
						}
						switch {
						case len(c.allow) == 0: // only deny rules
							want = want && !denied && !(c.defDeny)
						case len(c.deny) == 0: // only allow rules
							want = want && allowed
						case denied && allowed:
							want = want && c.pre
						case denied:
							want = false
						case allowed:
						default:
							want = want && !c.defDeny
						}
					}
				}
				m := raw
				if !udp {
					m = append([]byte{byte(len(raw) >> 8), byte(len(raw))}, raw...)
				}
				return yield(mk("dns", "dns", c.json, udp, m, want, why))
			}
			for _, n := range names {
				for qt := range dnsTypes {
					for cl := range dnsClasses {
						q := dnsQ{n, qt, cl}
						if !emit(dnsMsg(0x0100, []dnsQ{q}, 1, nil), true, []dnsQ{q}, "standard query with one question, allow/deny rules as documented") {
							return false
						}
					}
				}
			}
			q := dnsQ{"example.com.", 1, 1}
			q2 := dnsQ{"evil.example.com.", 1, 1}
			if !emit(dnsMsg(0x0100, []dnsQ{q, q2}, 2, nil), true, []dnsQ{q, q2}, "two questions: every question must pass the rules") ||
				!emit(dnsMsg(0x8100, []dnsQ{q}, 1, nil), false, nil, "QR bit set: a response, not a query") ||
				!emit(dnsMsg(0x0103, []dnsQ{q}, 1, nil), false, nil, "non-zero RCODE in a query") ||
				!emit(dnsMsg(0x0140, []dnsQ{q}, 1, nil), false, nil, "reserved Z bit set") ||
				!emit(dnsMsg(0x0100, nil, 0, nil), false, nil, "no question") ||
				!emit(dnsMsg(0x0100, []dnsQ{q}, 1, []byte{0}), false, nil, "trailing byte after the message") ||
				!emit(dnsMsg(0x0100, []dnsQ{q}, 2, nil), false, nil, "QDCOUNT says 2, one question present") {
				return false
			}
		}
	}
	return true
}

// ---------------------------------------------------------------- rdp

func rdpConnReq(tpktVer byte, tpktLenDelta int, x224 []byte, payload []byte) []byte {
	total := 4 + len(x224) + len(payload)
	l := total + tpktLenDelta
	out := []byte{tpktVer, 0, byte(l >> 8), byte(l)}
	out = append(out, x224...)
	return append(out, payload...)
}

func genRDP(tier string, yield func(Case) bool) bool {
	negreq := func(typ, flags byte, length uint16, protocols uint32) []byte {
		b := []byte{typ, flags, byte(length), byte(length >> 8)}
		p := make([]byte, 4)
		binary.LittleEndian.PutUint32(p, protocols)
		return append(b, p...)
	}
	x224 := func(payloadLen int, typeCredit byte, dst, src uint16, class byte, liDelta int) []byte {
		li := 6 + payloadLen + liDelta
		return []byte{byte(li), typeCredit, byte(dst >> 8), byte(dst), byte(src >> 8), byte(src), class}
	}
	type cfg struct {
		json string
		hash string
		re   *regexp.Regexp
		// ipPort: an IP or port filter is configured; only a routing TOKEN carries an IP and a
		// port, so a request with a mstshash cookie or without routing info cannot satisfy it
		ipPort bool
	}
	cfgs := []cfg{{`{}`, "", nil, false}, {`{"cookie_hash":"a0123"}`, "a0123", nil, false}, {`{"cookie_hash_regexp":"^[a-z]\\d+$"}`, "", regexp.MustCompile(`^[a-z]\d+$`), false},
		{`{"cookie_ips":["127.0.0.1/8"]}`, "", nil, true}, {`{"cookie_ports":[3389]}`, "", nil, true},
		{`{"cookie_hash":"a0123","cookie_ips":["10.0.0.0/8"]}`, "a0123", nil, true},
		{`{"cookie_hash_regexp":"^[a-z]\\d+$","cookie_ports":[3389,3390]}`, "", regexp.MustCompile(`^[a-z]\d+$`), true}}
	for _, c := range cfgs {
		type variant struct {
			cookie string
			neg    []byte
			valid  bool
			why    string
		}
		cookie := func(h string) string { return "Cookie: mstshash=" + h + "\r\n" }
		vs := []variant{
			{"", negreq(1, 0, 8, 0), true, "no routing info, standard RDP security"},
			{"", negreq(1, 0, 8, 1), true, "TLS"},
			{"", negreq(1, 0, 8, 3), true, "CredSSP"},
			{"", negreq(1, 0, 8, 11), true, "CredSSP + early user auth"},
			{"", negreq(1, 0, 8, 2), false, "CredSSP without TLS"},
			{"", negreq(1, 0, 8, 8), false, "early user auth without CredSSP"},
			{"", negreq(1, 0, 8, 0x100), false, "undefined protocol bit"},
			{"", negreq(1, 0x80, 8, 1), false, "undefined flag bit"},
			{"", negreq(2, 0, 8, 1), false, "negotiation response type in a request"},
			{"", negreq(1, 0, 9, 1), false, "wrong negotiation request length field"},
			{cookie("a0123"), negreq(1, 0, 8, 1), true, "cookie + negotiation request"},
			{cookie("b7"), negreq(1, 0, 8, 1), true, "other cookie"},
			{cookie("user name"), negreq(1, 0, 8, 1), true, "cookie with a space"},
			{cookie("a0123"), nil, true, "cookie only"},
		}
		for _, v := range vs {
			payload := append([]byte(v.cookie), v.neg...)
			want := v.valid
			hash := strings.TrimSuffix(strings.TrimPrefix(v.cookie, "Cookie: mstshash="), "\r\n")
			if c.hash != "" {
				want = want && v.cookie != "" && hash == c.hash
			}
			if c.re != nil {
				want = want && v.cookie != "" && c.re.MatchString(hash)
			}
			if c.ipPort {
				want = false
			}
			m := rdpConnReq(3, 0, x224(len(payload), 0xE0, 0, 0, 0, 0), payload)
			if !yield(mk("rdp", "rdp", c.json, false, m, want, v.why)) {
				return false
			}
		}
		// structural corruptions of a valid request
		payload := append([]byte(cookie("a0123")), negreq(1, 0, 8, 1)...)
		ok := c.re == nil || c.re.MatchString("a0123")
		_ = ok
		bad := [][]byte{
			rdpConnReq(2, 0, x224(len(payload), 0xE0, 0, 0, 0, 0), payload),
			rdpConnReq(3, 1, x224(len(payload), 0xE0, 0, 0, 0, 0), payload),
			rdpConnReq(3, 0, x224(len(payload), 0xD0, 0, 0, 0, 0), payload),
			rdpConnReq(3, 0, x224(len(payload), 0xE0, 1, 0, 0, 0), payload),
			rdpConnReq(3, 0, x224(len(payload), 0xE0, 0, 0, 1, 0), payload),
			rdpConnReq(3, 0, x224(len(payload), 0xE0, 0, 0, 0, 1), payload),
			append(rdpConnReq(3, 0, x224(len(payload), 0xE0, 0, 0, 0, 0), payload), 0),
		}
		whys := []string{"TPKT version 2", "TPKT length one too large", "X.224 code is not CR", "non-zero DST-REF", "non-zero class", "X.224 length indicator off by one", "trailing byte"}
		for i, m := range bad {
			if !yield(mk("rdp", "rdp", c.json, false, m, false, whys[i])) {
				return false
			}
		}
	}
	return true
}

// ---------------------------------------------------------------- http

func genHTTP(tier string, yield func(Case) bool) bool {
	type req struct {
		method, path, host string
		hdr                string
	}
	reqs := []req{{"GET", "/", "example.com", ""}, {"POST", "/api/x", "example.com", "X-Test: 1\r\n"}, {"GET", "/api", "other.test", "X-Test: 2\r\n"}, {"PUT", "/api/", "EXAMPLE.com", ""}, {"GET", "/apix/y", "example.com:8080", "x-test: 1\r\n"}}
	type cfg struct {
		json string
		ok   func(r req) bool
	}
	hostOf := func(h string) string {
		if i := strings.Index(h, ":"); i >= 0 {
			h = h[:i]
		}
		return strings.ToLower(h)
	}
	cfgs := []cfg{
		{`[]`, func(r req) bool { return true }},
		{`[{"host":["example.com"]}]`, func(r req) bool { return hostOf(r.host) == "example.com" }},
		{`[{"method":["POST","PUT"]}]`, func(r req) bool { return r.method == "POST" || r.method == "PUT" }},
		{`[{"path":["/api/*"]}]`, func(r req) bool { return strings.HasPrefix(r.path, "/api/") }},
		{`[{"header":{"X-Test":["1"]}}]`, func(r req) bool { return strings.Contains(strings.ToLower(r.hdr), "x-test: 1") }},
		{`[{"host":["other.test"]},{"method":["PUT"]}]`, func(r req) bool { return hostOf(r.host) == "other.test" || r.method == "PUT" }},
	}
	for _, c := range cfgs {
		for _, r := range reqs {
			for _, ver := range []string{"HTTP/1.1", "HTTP/1.0"} {
				m := fmt.Sprintf("%s %s %s\r\nHost: %s\r\n%s\r\n", r.method, r.path, ver, r.host, r.hdr)
				if !yield(mk("http", "http", c.json, false, []byte(m), c.ok(r), "well-formed HTTP/1.x request, request matchers as configured")) {
					return false
				}
			}
		}
		for _, m := range []string{"GET / HTTX/1.1\r\nHost: a\r\n\r\n", "SSH-2.0-OpenSSH\r\n\r\n", "\x16\x03\x01\x00\x10aaaaaaaaaaaaaaaa\n\n"} {
			if !yield(mk("http", "http", c.json, false, []byte(m), false, "not an HTTP request line")) {
				return false
			}
		}
	}
	return true
}

// ---------------------------------------------------------------- addresses, not, clock

func genAddr(tier string, yield func(Case) bool) bool {
	type cfg struct {
		json string
		nets []string
	}
	cfgs := []cfg{
		{`{"ranges":["10.0.0.0/8"]}`, []string{"10.0.0.0/8"}},
		{`{"ranges":["192.168.1.1"]}`, []string{"192.168.1.1/32"}},
		{`{"ranges":["2001:db8::/32","10.1.0.0/16"]}`, []string{"2001:db8::/32", "10.1.0.0/16"}},
		{`{"ranges":["0.0.0.0/0"]}`, []string{"0.0.0.0/0"}},
		{`{"ranges":["::/0"]}`, []string{"::/0"}},
	}
	addrs := []string{"10.0.0.1:5", "10.255.255.255:65535", "11.0.0.0:1", "192.168.1.1:80", "192.168.1.2:80", "[2001:db8::1]:443", "[2001:db9::1]:443", "[::1]:1", "10.1.2.3:9", "[::ffff:10.0.0.1]:7"}
	for _, which := range []string{"remote_ip", "local_ip"} {
		for _, c := range cfgs {
			for _, a := range addrs {
				host, _, _ := net.SplitHostPort(a)
				ip := net.ParseIP(host)
				is4 := ip.To4() != nil // an IPv4-mapped IPv6 address is the IPv4 address it maps
				in := false
				for _, n := range c.nets {
					_, nn, _ := net.ParseCIDR(n)
					if is4 == strings.Contains(n, ":") {
						continue // families differ
					}
					in = in || nn.Contains(ip)
				}
				for _, neg := range []bool{false, true} {
					k := Case{Proto: which, Module: which, Config: c.json, Want: map[bool]string{true: "yes", false: "no"}[in != neg], Why: "address inside one of the configured prefixes"}
					if neg {
						k.Module, k.Config, k.Why = "not", fmt.Sprintf(`[{"%s":%s}]`, which, c.json), "negation of: "+k.Why
					}
					if which == "remote_ip" {
						k.Remote = a
					} else {
						k.Local = a
					}
					if !yield(k) {
						return false
					}
				}
			}
		}
	}
	// 'not' over two matcher sets: true iff neither set matches
	two := `[{"remote_ip":{"ranges":["10.0.0.0/8"]}},{"remote_ip":{"ranges":["192.168.1.0/24"]}}]`
	for _, a := range addrs {
		host, _, _ := net.SplitHostPort(a)
		ip := net.ParseIP(host)
		in := false
		for _, n := range []string{"10.0.0.0/8", "192.168.1.0/24"} {
			_, nn, _ := net.ParseCIDR(n)
			in = in || (ip.To4() != nil && nn.Contains(ip))
		}
		k := Case{Proto: "not", Module: "not", Config: two, Remote: a, Want: map[bool]string{true: "yes", false: "no"}[!in], Why: "negation of two matcher sets: neither may match"}
		if !yield(k) {
			return false
		}
	}
	return true
}

func genClock(tier string, yield func(Case) bool) bool {
	type cfg struct {
		after, before, tz string
	}
	cfgs := []cfg{{"08:00:00", "17:30:00", ""}, {"17:30:00", "08:00:00", ""}, {"00:00:00", "00:00:00", ""}, {"23:59:59", "00:00:00", ""}, {"00:00:00", "00:00:01", ""},
		{"08:00:00", "17:30:00", "+02"}, {"08:00:00", "17:30:00", "-03:30"}, {"08:00:00", "17:30:00", "+12:34:56"}, {"01:30:00", "02:30:00", "America/Los_Angeles"}, {"12:00:00", "13:00:00", "UTC"}}
	for _, c := range cfgs {
		cfg := fmt.Sprintf(`{"after":%q,"before":%q,"timezone":%q}`, c.after, c.before, c.tz)
		loc := time.UTC
		switch c.tz {
		case "", "UTC":
		case "+02":
			loc = time.FixedZone("", 2*3600)
		case "-03:30":
			loc = time.FixedZone("", -(3*3600 + 1800))
		case "+12:34:56":
			loc = time.FixedZone("", 12*3600+34*60+56)
		default:
			loc, _ = time.LoadLocation(c.tz)
		}
		sec := func(s string) int {
			var h, m, x int
			fmt.Sscanf(s, "%d:%d:%d", &h, &m, &x)
			return h*3600 + m*60 + x
		}
		a, b := sec(c.after), sec(c.before)
		if b == 0 {
			b = 86400
		}
		if b < a {
			a, b = b, a
		}
		// instants: every window boundary +-1 s (in the zone), day boundaries, DST switches 2026
		var instants []time.Time
		day := time.Date(2026, 3, 8, 0, 0, 0, 0, loc) // US DST starts on this day
		for _, d := range []time.Time{day, time.Date(2026, 11, 1, 0, 0, 0, 0, loc), time.Date(2026, 7, 15, 0, 0, 0, 0, loc)} {
			for _, s := range []int{0, 1, a - 1, a, a + 1, b - 1, b, b + 1, 86399, 43200, 2*3600 - 1, 2 * 3600, 3 * 3600} {
				if s < 0 {
					continue
				}
				instants = append(instants, d.Add(time.Duration(s)*time.Second))
			}
		}
		for _, t := range instants {
			lt := t.In(loc)
			now := lt.Hour()*3600 + lt.Minute()*60 + lt.Second()
			want := now >= a && now < b
			k := Case{Proto: "clock", Module: "clock", Config: cfg, Want: map[bool]string{true: "yes", false: "no"}[want], Time: t.UTC().Format(time.RFC3339Nano),
				Why: fmt.Sprintf("local time of day %02d:%02d:%02d inside [after, before) after swapping / treating 00:00:00 as 24:00:00", lt.Hour(), lt.Minute(), lt.Second())}
			if !yield(k) {
				return false
			}
		}
	}
	return true
}

// ---------------------------------------------------------------- running cases

var gens = map[string]gen{"simple": genSimple, "postgres": genPostgres, "socks": genSocks, "regexp": genRegexp, "wireguard": genWireGuard,
	"openvpn": genOpenVPN, "winbox": genWinbox, "dns": genDNS, "rdp": genRDP, "http": genHTTP, "addr": genAddr, "clock": genClock}

type Scn struct {
	Gen  string `json:"gen"`
	Case *Case  `json:"case,omitempty"`
}

var cache = map[string]*mrun.Loaded{}

// cases evaluated on the same loaded matcher follow each other: one Seq per matcher instance
var seqs = map[string]*runner.Seq{}

func seqOf(c *Case) *runner.Seq {
	key := c.Module + c.Config
	if seqs[key] == nil {
		seqs[key] = &runner.Seq{}
	}
	return seqs[key]
}

func judgeCase(c *Case) []explore.Failure {
	got, detail, err := runCase(c)
	if err != nil {
		return nil
	}
	if (c.Want == "yes" && got != "yes") || (c.Want == "no" && got == "yes") || got == "panic" {
		sig := fmt.Sprintf("%s:%s-but-matcher-says-%s", c.Proto, map[string]string{"yes": "should-match", "no": "should-not-match"}[c.Want], got)
		return []explore.Failure{{Sig: sig, Msg: detail}}
	}
	return nil
}

func load(c *Case) (*mrun.Loaded, error) {
	key := c.Module + c.Config
	if l, ok := cache[key]; ok {
		return l, nil
	}
	l, err := mrun.Load(mrun.Spec{Module: c.Module, Config: json.RawMessage(c.Config)})
	if err == nil {
		cache[key] = l
	}
	return l, err
}

func runCase(c *Case) (got string, detail string, err error) {
	l, err := load(c)
	if err != nil {
		return "", "", err
	}
	msg, _ := hex.DecodeString(c.Msg)
	cx, sc := mrun.Conn(msg, c.UDP)
	if c.Remote != "" || c.Local != "" || c.Time != "" {
		// rebuild the connection with the requested addresses / wrap time
		sc2 := hm.NewSConn(nil, msg, false)
		if c.Remote != "" {
			a, _ := net.ResolveTCPAddr("tcp", c.Remote)
			sc2.Remote = a
		}
		if c.Local != "" {
			a, _ := net.ResolveTCPAddr("tcp", c.Local)
			sc2.Local = a
		}
		cx = layer4.WrapConnection(sc2, make([]byte, 0, 16), nil)
		cx.Logger = mrun.Nop
		if c.Time != "" {
			t, _ := time.Parse(time.RFC3339Nano, c.Time)
			cx.Context.Value(layer4.ReplacerCtxKey).(*caddy.Replacer).Set("l4.conn.wrap_time", t)
		}
		_ = sc
	}
	lm := &mrun.Loaded{Spec: mrun.Spec{Module: c.Module, UDP: c.UDP}, M: l.M}
	v := lm.Eval(cx)
	return v.V, v.String(), nil
}

func main() {
	runner.Main(&runner.Harness{
		ID:    "C14",
		Level: "model_checking",
		Rule:  "per-protocol generators of complete first messages over boundary grids of their fields plus single-field corruptions, under several filter configurations each: ssh, xmpp, proxy_protocol, postgres (request codes, versions, parameters, corrupt lengths), socks4 (version x command x port x address x command/port/network filters), socks5 (method lists, also with repeated methods, x auth_methods), regexp (patterns x count), wireguard (lengths x type x zero), openvpn plain and tls-auth hard-reset (TCP/UDP, opcode, session, acks, packet id, modes; every HMAC size up to the 64-byte maximum), winbox (user names, key length, parity, modes, username filters, 1-2 chunks), dns (names x types x classes x all 16 allow/deny/default_deny/prefer_allow combinations, TCP/UDP, header-bit corruptions), rdp (negotiation flags/protocol bits, cookie filters, structural corruptions), http (methods, hosts, paths, headers x request matcher sets), remote_ip/local_ip and 'not' (IPv4/IPv6 prefixes), clock (window boundaries +-1 s, swapped bounds, 24:00, fixed-offset and IANA zones on DST days); reference predicates are written in the harness from the wire definitions and the modules' documented filter semantics",
		Assumptions: []string{
			"for 'no' cases an undecided verdict or an error also counts as not matching",
			"RDP token routing, OpenVPN crypt/crypt2 modes (and auth with a key) and HTTP/2 are exercised by C04/C06/C18 but have no independent predicate here",
		},
		Scenarios: func(tier string, yield func(any) bool) {
			for _, g := range []string{"simple", "postgres", "socks", "regexp", "wireguard", "openvpn", "winbox", "dns", "rdp", "http", "addr", "clock"} {
				if !yield(&Scn{Gen: g}) {
					return
				}
			}
		},
		Run: func(tier string, scAny any, rep *runner.Report) {
			sc := scAny.(*Scn)
			rep.Scenarios++
			gens[sc.Gen](tier, func(c Case) bool {
				got, detail, err := runCase(&c)
				rep.Executions++
				rep.Transitions++
				rep.States++
				if err != nil {
					rep.Note(fmt.Sprintf("configuration %s %s does not load: %v", c.Module, c.Config, err))
					rep.Incident("MATCHER-LOAD-FAILED")
					return true
				}
				if c.Want == "yes" {
					rep.Nontrivial++
				}
				rep.Outcome(uint64(len(c.Msg))<<16 ^ uint64(len(c.Config))<<4 ^ uint64(len(got)))
				bad := (c.Want == "yes" && got != "yes") || (c.Want == "no" && got == "yes") || got == "panic"
				one := &Scn{Gen: sc.Gen, Case: &c}
				if bad {
					sig := fmt.Sprintf("%s:%s-but-matcher-says-%s", c.Proto, map[string]string{"yes": "should-match", "no": "should-not-match"}[c.Want], got)
					seqOf(&c).FailAfter(rep, one, sig, fmt.Sprintf("%s matcher %s on message %s (udp=%v remote=%s local=%s time=%s): reference says %s (%s), matcher says %s", c.Module, c.Config, c.Msg, c.UDP, c.Remote, c.Local, c.Time, c.Want, c.Why, detail), nil)
				}
				seqOf(&c).Done(one, nil)
				return !rep.Expired()
			})
		},
		DecodeScenario: func(raw json.RawMessage) (any, error) {
			sc := &Scn{}
			return sc, json.Unmarshal(raw, sc)
		},
		Replay: func(scAny any, _ []int) []explore.Failure {
			sc := scAny.(*Scn)
			if sc.Case == nil {
				return nil
			}
			cache = map[string]*mrun.Loaded{} // a freshly loaded matcher
			return judgeCase(sc.Case)
		},
		ReplayH: func(hist []runner.HistItem, scAny any, _ []int) []explore.Failure {
			sc := scAny.(*Scn)
			if sc.Case == nil {
				return nil
			}
			cache = map[string]*mrun.Loaded{}
			for _, it := range hist {
				hs := &Scn{}
				if json.Unmarshal(it.Scenario, hs) == nil && hs.Case != nil {
					judgeCase(hs.Case)
				}
			}
			return judgeCase(sc.Case)
		},
		Budget: func(tier string) time.Duration { return 10 * time.Minute },
	})
}
