//go:build verif

// C11: upstream health, failure windows, retries and limits are accounted exactly.
// The real (rewritten) proxy Handle / dialPeers / countFailure / tryAgain /
// activeHealthChecker code runs under the controlled scheduler with a virtual clock; every
// dial's outcome is an explorer choice and a reference model replays the same outcomes.
package main

import (
	"context"
	"encoding/json"
	"fmt"
	"io"
	"net"
	"os"
	"strings"
	"sync"
	"time"

	"github.com/caddyserver/caddy/v2"
	"go.uber.org/zap"
	"go.uber.org/zap/zapcore"
	"go.uber.org/zap/zaptest/observer"

	"github.com/mholt/caddy-l4/layer4"
	"github.com/mholt/caddy-l4/modules/l4proxy"

	"verif/mc/explore"
	"verif/mc/hm"
	"verif/mc/runner"
	"verif/mc/vnet"
	"verif/mc/vsched"
	"verif/mc/vtime"
)

type Scn struct {
	FailDurMS  int    `json:"fail_duration_ms"`
	MaxFails   int    `json:"max_fails"`
	TryDurMS   int    `json:"try_duration_ms"`
	TryIntMS   int    `json:"try_interval_ms"`
	MaxConns   int    `json:"max_connections"`
	Unhealthy  int    `json:"unhealthy_connection_count"`
	ActiveMS   int    `json:"active_interval_ms"`
	Arrivals   []int  `json:"arrivals_ms"`
	HoldMS     int    `json:"hold_ms"`
	Outage     [2]int `json:"outage_ms"` // active-check scenarios: upstream 0 refuses during [from,to)
	MaxFailing int    `json:"max_failing_dials"`
	Peers      int    `json:"peers_of_upstream0,omitempty"`        // 2: upstream 0 dials two addresses (every connection goes to both)
	V6         bool   `json:"ipv6_upstreams,omitempty"`            // the upstreams are IPv6 literals
	MaxConns0  int    `json:"max_connections_upstream0,omitempty"` // an explicit limit on upstream 0 only; upstream 1 takes unhealthy_connection_count as its limit
	// ReloadMS: at this time the configuration is reloaded the way caddy does it: a second
	// instance of the same server is provisioned under a new context, then the old context is
	// cancelled (its modules are cleaned up); later arrivals are handled by the new instance.
	// Upstream state (failures, open connections, health) lives on the shared peers and carries over
	ReloadMS int  `json:"reload_ms,omitempty"`
	SlowFail bool `json:"slow_fail,omitempty"`
	// Shared: upstream 0 dials two addresses A and B, upstream 1 dials A alone; B always refuses,
	// A always accepts.  A failure of B is B's: A, and with it upstream 1, stays in rotation
	Shared bool `json:"shared_peer,omitempty"` // a failing dial may also fail only after 300 ms (e.g. a handshake that times out), so that dials to one peer overlap
}

type vclock struct{}

func (vclock) Now() time.Time                         { return vtime.Now() }
func (vclock) NewTicker(d time.Duration) *time.Ticker { return time.NewTicker(d) }

type dialRec struct {
	At     int64
	DoneAt int64 // when the dial returned (later than At for a slow failure)
	Up     int
	Peer   int
	OK     bool
	Health bool // dialled by the active health checker
}

type connRec struct {
	Arrive   int64
	ReturnAt int64
	Returned bool
	Err      string
}

type result struct {
	unloadAt    int64 // when the old instance was unloaded (reload scenarios)
	out         vsched.Outcome
	mu          sync.Mutex
	dials       []dialRec
	conns       []*connRec
	peers       [][]l4proxy.VerifPeerState // snapshots at the end
	negSeen     string
	provisionAt int64
	snapshotAt  int64
}

var addrs = []string{"10.0.0.10:80", "10.0.0.11:80"}

// upstream addresses of the scenario (IPv6 literals in the V6 family)
func addrsOf(sc *Scn) []string {
	if sc.V6 {
		return []string{"[2001:db8::10]:80", "[2001:db8::11]:80"}
	}
	return addrs
}

const secondPeer = "10.0.0.12:80" // second dial address of upstream 0 in the multi-peer family

type target struct {
	addr     string
	up, peer int
}

func targets(sc *Scn) []target {
	addrs := addrsOf(sc)
	ts := []target{{addrs[0], 0, 0}, {addrs[1], 1, 0}}
	if sc.Peers == 2 || sc.Shared {
		ts = append(ts, target{secondPeer, 0, 1})
	}
	if sc.Shared {
		ts = []target{ts[0], ts[2]} // upstream 1 dials A as well: two addresses in all
	}
	return ts
}

func execute(x *explore.Exec, sc *Scn) *result {
	res := &result{}
	layer4.VerifResetPools()
	var trace func(string)
	if os.Getenv("VERIF_TRACE") != "" {
		trace = func(l string) { fmt.Printf("  | %8.3fs %s\n", float64(vsched.NowNS())/1e9, l) }
	}
	core, obs := observer.New(zapcore.ErrorLevel)
	failing := 0
	res.out = vsched.Run(x, vsched.Options{Horizon: 60000, Trace: trace}, func() {
		logger := zap.New(core, zap.WithClock(vclock{}))
		nw := vnet.NewNet()
		vnet.Current = nw
		defer func() { vnet.Current = nil }()
		for _, tg := range targets(sc) {
			u, tg := tg.up, tg
			nw.Handle(tg.addr, func(client net.Addr) (net.Conn, error) {
				health := nw.WithTimeout
				ok, slow := true, false
				if sc.ActiveMS > 0 {
					t := vsched.NowNS() / 1e6
					ok = !(u == 0 && t >= int64(sc.Outage[0]) && t < int64(sc.Outage[1]))
				} else if sc.Shared {
					ok = tg.addr != secondPeer
				} else if failing < sc.MaxFailing {
					n := 2
					if sc.SlowFail {
						n = 3
					}
					if c := x.Choose(explore.KFault, n); c > 0 {
						ok = false
						failing++
						slow = c == 2
					}
				}
				res.mu.Lock()
				res.dials = append(res.dials, dialRec{At: vsched.NowNS(), DoneAt: vsched.NowNS(), Up: u, Peer: tg.peer, OK: ok, Health: health})
				idx := len(res.dials) - 1
				res.mu.Unlock()
				if slow {
					vtime.Sleep(300 * time.Millisecond)
					res.mu.Lock()
					res.dials[idx].DoneAt = vsched.NowNS()
					res.mu.Unlock()
				}
				if !ok {
					return nil, vnet.ErrRefused
				}
				cEnd, sEnd := vnet.Pipe(fmt.Sprintf("px-up%d", u), fmt.Sprintf("up%d", u), client, vnet.TCP("10.0.0.10", 80))
				vsched.GoNamed(fmt.Sprintf("upstream%d", u), func() {
					io.Copy(io.Discard, sEnd)
					sEnd.Close()
				})
				return cEnd, nil
			})
		}
		addrs := addrsOf(sc)
		dial0 := []string{addrs[0]}
		if sc.Peers == 2 || sc.Shared {
			dial0 = append(dial0, secondPeer)
		}
		px := map[string]any{"handler": "proxy",
			"upstreams": []map[string]any{
				{"dial": dial0, "max_connections": sc.MaxConns + sc.MaxConns0},
				{"dial": []string{map[bool]string{false: addrs[1], true: addrs[0]}[sc.Shared]}, "max_connections": sc.MaxConns}},
			"load_balancing": map[string]any{"selection": map[string]any{"policy": "first"},
				"try_duration": fmt.Sprintf("%dms", sc.TryDurMS), "try_interval": fmt.Sprintf("%dms", sc.TryIntMS)},
		}
		hc := map[string]any{}
		if sc.FailDurMS > 0 || sc.MaxFails > 0 || sc.Unhealthy > 0 {
			hc["passive"] = map[string]any{"fail_duration": fmt.Sprintf("%dms", sc.FailDurMS), "max_fails": sc.MaxFails, "unhealthy_connection_count": sc.Unhealthy}
		}
		if sc.ActiveMS > 0 {
			hc["active"] = map[string]any{"interval": fmt.Sprintf("%dms", sc.ActiveMS), "timeout": "100ms"}
		}
		if len(hc) > 0 {
			px["health_checks"] = hc
		}
		routes := []map[string]any{{"handle": []map[string]any{px}}}
		mk := func() (*layer4.Server, context.CancelFunc) {
			ctx, cancel := caddy.NewContext(caddy.Context{Context: context.Background()})
			srv := &layer4.Server{}
			if err := json.Unmarshal(hm.J(routes), &srv.Routes); err != nil {
				panic(err)
			}
			if err := srv.Provision(ctx, logger); err != nil {
				panic(err)
			}
			return srv, cancel
		}
		res.provisionAt = vsched.NowNS()
		srv, cancel := mk()
		prev := 0
		reloaded := false
		for i, at := range sc.Arrivals {
			if sc.ReloadMS > 0 && !reloaded && at >= sc.ReloadMS {
				vtime.Sleep(time.Duration(sc.ReloadMS-prev) * time.Millisecond)
				prev = sc.ReloadMS
				reloaded = true
				srv2, cancel2 := mk()
				// caddy starts the new configuration first and unloads the old one afterwards
				vtime.Sleep(20 * time.Millisecond)
				prev += 20
				res.unloadAt = vsched.NowNS()
				cancel() // the old instance's context: its checker stops, its modules are cleaned up
				srv, cancel = srv2, cancel2
			}
			srv := srv
			vtime.Sleep(time.Duration(at-prev) * time.Millisecond)
			prev = at
			cl, sv := vnet.Pipe(fmt.Sprintf("client%d", i), fmt.Sprintf("server%d", i), vnet.TCP("192.0.2.9", 40000+i), vnet.TCP("10.0.0.1", 443))
			cr := &connRec{Arrive: vsched.NowNS()}
			res.conns = append(res.conns, cr)
			vsched.GoNamed(fmt.Sprintf("handle%d", i), func() {
				layer4.VerifHandle(srv, sv)
				cr.ReturnAt, cr.Returned = vsched.NowNS(), true
			})
			vsched.GoNamed(fmt.Sprintf("client%d", i), func() {
				vtime.Sleep(time.Duration(sc.HoldMS) * time.Millisecond)
				cl.CloseWrite()
				io.Copy(io.Discard, cl)
			})
		}
		vtime.Sleep(time.Duration(sc.FailDurMS+sc.TryDurMS+sc.HoldMS+3000) * time.Millisecond)
		// snapshot the counters at quiescence (before the context is cancelled: cleanup removes
		// the peers from the global pool)
		st := l4proxy.VerifPeerStates()
		res.snapshotAt = vsched.NowNS()
		if len(st) < len(targets(sc)) {
			panic(fmt.Sprintf("peer pool has %d entries, want %d", len(st), len(targets(sc))))
		}
		cancel() // stops the active health checker
		vtime.Sleep(time.Second)
		for i, a := range addrsOf(sc) {
			if sc.Shared && i == 1 {
				continue
			}
			res.peers = append(res.peers, []l4proxy.VerifPeerState{st[a]})
		}
		if sc.Peers == 2 || sc.Shared {
			res.peers[0] = append(res.peers[0], st[secondPeer])
		}
	})
	l4proxy.VerifResetPeers()
	// errors returned by Handle are logged by Server.handle
	for _, l := range obs.FilterMessage("handling connection").All() {
		remote := fmt.Sprint(l.ContextMap()["remote"])
		for i, c := range res.conns {
			if strings.HasSuffix(remote, fmt.Sprintf(":%d", 40000+i)) {
				c.Err = fmt.Sprint(l.ContextMap()["error"])
			}
		}
	}
	return res
}

// ---- reference model ----------------------------------------------------------------------

func check(x *explore.Exec, sc *Scn, r *result) {
	desc := func() string {
		var sb strings.Builder
		for _, d := range r.dials {
			kind := ""
			if d.Health {
				kind = "hc"
			}
			fmt.Fprintf(&sb, "dial%s(%.3fs up%d.%d ok=%v) ", kind, float64(d.At)/1e9, d.Up, d.Peer, d.OK)
		}
		for i, c := range r.conns {
			fmt.Fprintf(&sb, "conn%d(arrive %.3fs return %.3fs %q) ", i, float64(c.Arrive)/1e9, float64(c.ReturnAt)/1e9, c.Err)
		}
		return fmt.Sprintf("scenario=%s %speers=%v blocked=%v", hm.J(sc), sb.String(), r.peers, r.out.Blocked)
	}
	for _, p := range r.out.Panics {
		x.Fail("panic:"+p[strings.LastIndex(p, " at ")+4:], "a thread panicked: %s; %s", p, desc())
	}
	if r.out.Horizon {
		x.Fail("horizon", "step horizon exceeded; %s", desc())
		return
	}
	// counters are never negative and return to zero at quiescence
	for u, ps := range r.peers {
		for _, p := range ps {
			if p.NumConns < 0 || p.Fails < 0 {
				x.Fail("negative-counter", "upstream %d has a negative counter: %+v; %s", u, p, desc())
			}
			// (a handler or an expiry timer the scheduler delayed past the snapshot is still counted)
			quiet := x.Used(explore.KTime) == 0
			for _, c := range r.conns {
				quiet = quiet && c.Returned && c.ReturnAt < r.snapshotAt
			}
			if quiet && (p.NumConns != 0 || p.Fails != 0) {
				x.Fail("counter-not-zero-at-quiescence", "upstream %d still counts conns=%d fails=%d after every connection ended and every failure expired; %s", u, p.NumConns, p.Fails, desc())
			}
		}
	}
	if sc.Peers == 2 {
		checkMultiPeer(x, sc, r, desc)
		return
	}
	if sc.Shared {
		checkShared(x, sc, r, desc)
		return
	}
	if x.Used(explore.KTime) > 0 {
		x.Observe("time-deviation")
		return // the timing reference below assumes no thread is delayed across virtual time
	}
	maxFails := sc.MaxFails
	if sc.FailDurMS > 0 && maxFails == 0 {
		maxFails = 1 // Provision's default
	}
	maxConns := sc.MaxConns
	if maxConns == 0 {
		maxConns = sc.Unhealthy
	}
	// the limit of each upstream: its own max_connections, else unhealthy_connection_count
	limitOf := func(u int) int {
		if u == 0 && sc.MaxConns0 > 0 {
			return sc.MaxConns0
		}
		return maxConns
	}
	failDur := int64(sc.FailDurMS) * 1e6
	type fail struct{ at int64 }
	fails := [2][]int64{}
	// open proxied connections per upstream: [dial time, return time of that connection)
	type open struct{ from, to int64 }
	opens := [2][]open{}
	activeDown := [2]bool{}
	available := func(u int, t int64) bool {
		if activeDown[u] {
			return false
		}
		if sc.FailDurMS > 0 && maxFails > 0 {
			n := 0
			for _, f := range fails[u] {
				if t >= f && t < f+failDur {
					n++
				}
			}
			if n >= maxFails {
				return false
			}
		}
		if lim := limitOf(u); lim > 0 {
			n := 0
			for _, o := range opens[u] {
				if t >= o.from && t < o.to {
					n++
				}
			}
			if n >= lim {
				return false
			}
		}
		return true
	}
	// which connection does a proxy dial belong to?  attempts of connection i happen at
	// arrive_i + k*interval; match each dial to the connection whose schedule contains its time
	interval := int64(sc.TryIntMS) * 1e6
	tryDur := int64(sc.TryDurMS) * 1e6
	attempts := make([]int, len(r.conns))
	dialTime := make([]int64, len(r.conns))  // time connection i spent inside slowly failing dials
	dialFailed := make([]bool, len(r.conns)) // some dial made for connection i failed
	served := make([]int, len(r.conns))
	for i := range served {
		served[i] = -1
	}
	for _, d := range r.dials {
		if d.Health {
			// active checker: a refused check marks the peer down, an accepted one up
			activeDown[d.Up] = !d.OK
			continue
		}
		// which connection and which retry round (arrival + k x interval) is this dial?  (the
		// virtual clock lands 1 ns past every timer: allow 1 us of accumulated drift)
		ci, k := -1, 0
		for i, c := range r.conns {
			if served[i] >= 0 || d.At < c.Arrive || (c.Returned && d.At > c.ReturnAt) {
				continue
			}
			kk := int64(0)
			if interval > 0 {
				kk = (d.At - c.Arrive + 500) / interval
			}
			if off := d.At - c.Arrive - kk*interval; off >= 0 && off <= 1000 && int(kk) >= attempts[i] {
				ci, k = i, int(kk)
				break
			}
		}
		if ci < 0 {
			x.Fail("unexpected-dial-time", "a dial at %.3fs fits no connection's retry schedule (arrival + k x try_interval); %s", float64(d.At)/1e9, desc())
			return
		}
		c := r.conns[ci]
		// rounds that were skipped without a dial: legal only if no upstream was available then
		for j := attempts[ci]; j < k; j++ {
			tj := c.Arrive + int64(j)*interval
			for u := 0; u < 2; u++ {
				if available(u, tj+int64(j)) {
					x.Fail("available-upstream-not-tried", "connection %d made no attempt in retry round %d (%.3fs) although upstream %d was available (reference: failures %v within %dms); %s", ci, j, float64(tj)/1e9, u, fails, sc.FailDurMS, desc())
					return
				}
			}
		}
		// was this attempt allowed at all?  round k>0 only if the previous check saw elapsed < try_duration
		if k > 0 && int64(k-1)*interval >= tryDur {
			x.Fail("retry-after-try-duration", "connection %d was retried at %.3fs although try_duration %dms had already elapsed at its previous attempt; %s", ci, float64(d.At)/1e9, sc.TryDurMS, desc())
		}
		// expected target: the first available upstream at this instant.  Attempts at which no
		// upstream was available produce no dial: account for skipped rounds
		want := -1
		for u := 0; u < 2; u++ {
			if available(u, d.At) {
				want = u
				break
			}
		}
		if want != d.Up {
			why := "it is out of rotation"
			if want >= 0 {
				why = fmt.Sprintf("the first available upstream is %d", want)
			}
			sig := "wrong-upstream"
			if maxConns > 0 && !availableIgnoringConns(u2b(d.Up), fails, failDur, maxFails, sc, activeDown, d.At) {
				sig = "wrong-upstream"
			}
			if lim := limitOf(d.Up); lim > 0 {
				n := 0
				for _, o := range opens[d.Up] {
					if d.At >= o.from && d.At < o.to {
						n++
					}
				}
				if n >= lim {
					sig = "max-connections-not-enforced"
				}
			}
			x.Fail(sig, "connection %d attempt %d at %.3fs dialled upstream %d although %s (reference: failures %v within %dms, open connections %v, limit %d); %s", ci, k, float64(d.At)/1e9, d.Up, why, fails, sc.FailDurMS, opens, maxConns, desc())
			return
		}
		attempts[ci] = k + 1
		if d.OK {
			served[ci] = d.Up
			to := c.ReturnAt
			if !c.Returned {
				to = 1 << 62
			}
			opens[d.Up] = append(opens[d.Up], open{d.At, to})
		} else {
			fails[d.Up] = append(fails[d.Up], d.DoneAt) // a failure is remembered from the moment the dial returns
			dialTime[ci] += d.DoneAt - d.At
			dialFailed[ci] = true
		}
	}
	// every connection: either served, or failed at the first retry check at/after try_duration
	for i, c := range r.conns {
		if !c.Returned {
			x.Fail("handle-never-returned", "connection %d: Handle did not return; %s", i, desc())
			continue
		}
		if served[i] >= 0 {
			if c.Err != "" {
				x.Fail("served-but-error", "connection %d was proxied but Handle returned %q; %s", i, c.Err, desc())
			}
			continue
		}
		if c.Err == "" {
			x.Fail("failed-without-error", "connection %d was never connected to an upstream but Handle returned no error; %s", i, desc())
		}
		// ... and then fails with the last error: the error of its last failed dial, not the
		// "no upstreams available" of a later round in which nothing could be tried
		if dialFailed[i] && strings.Contains(c.Err, "no upstreams available") {
			x.Fail("not-the-last-error", "connection %d made dials that failed, yet it ended with %q instead of the last dial error; %s", i, c.Err, desc())
		}
		// a connection that is waiting for its next attempt when its instance is unloaded gives up
		// at that moment (the retry wait selects on the instance's context)
		reloadAt := r.unloadAt
		if sc.ReloadMS > 0 && c.Arrive < reloadAt && c.ReturnAt >= reloadAt && c.ReturnAt <= reloadAt+1000 {
			x.Observe("retry-ended-by-reload")
			continue
		}
		// it gave up: in every round in which it made no attempt, no upstream was available
		for j := attempts[i]; ; j++ {
			tj := c.Arrive + int64(j)*interval
			if j > 0 && (interval == 0 || int64(j-1)*interval >= tryDur) {
				break
			}
			for u := 0; u < 2; u++ {
				if available(u, tj+int64(j)) {
					x.Fail("available-upstream-not-tried", "connection %d made no attempt in retry round %d (%.3fs) and failed with %q although upstream %d was available (reference: failures %v within %dms, active checks down=%v); %s", i, j, float64(tj)/1e9, c.Err, u, fails, sc.FailDurMS, activeDown, desc())
					return
				}
			}
			if interval == 0 {
				break
			}
		}
		// it must have kept trying until try_duration elapsed: the give-up time is the first
		// multiple of try_interval at or after try_duration
		giveUp := int64(0)
		for giveUp < tryDur {
			giveUp += interval
			if interval == 0 {
				break
			}
		}
		giveUp += dialTime[i]
		if el := c.ReturnAt - c.Arrive; el < giveUp || el > giveUp+1000 {
			x.Fail("retry-schedule", "connection %d failed %.3fs after it arrived; with try_duration %dms and try_interval %dms it should give up after %.3fs; %s", i, float64(el)/1e9, sc.TryDurMS, sc.TryIntMS, float64(giveUp)/1e9, desc())
		}
	}
	var sb strings.Builder
	for _, d := range r.dials {
		fmt.Fprintf(&sb, "%d%v", d.Up, d.OK)
	}
	x.Observe(sb.String(), served)
}

// checkMultiPeer judges the family in which upstream 0 has two dial addresses (passive failure
// tracking off, so only open connections can take an upstream out of rotation): an attempt
// on upstream 0 dials peer 0 and, only if that succeeded, peer 1; a connection is served iff
// one of its attempts reached every peer of an upstream; an attempt that failed half-way
// leaves nothing behind (the counters clause above), so upstream 0 is chosen again.
func checkMultiPeer(x *explore.Exec, sc *Scn, r *result, desc func() string) {
	complete := 0
	for i, d := range r.dials {
		switch {
		case d.Up == 0 && d.Peer == 1:
			if x.Used(explore.KTime) == 0 && (i == 0 || r.dials[i-1].Up != 0 || r.dials[i-1].Peer != 0 || !r.dials[i-1].OK || r.dials[i-1].At != d.At) {
				x.Fail("peer-dialled-out-of-turn", "the second peer of upstream 0 was dialled without a successful dial of its first peer just before; %s", desc())
				return
			}
			if d.OK {
				complete++
			}
		case d.Up == 1 && d.OK:
			complete++
		}
	}
	okConns := 0
	for i, c := range r.conns {
		if !c.Returned {
			x.Fail("handle-never-returned", "connection %d: Handle did not return; %s", i, desc())
			return
		}
		if c.Err == "" {
			okConns++
		}
	}
	if complete != okConns {
		x.Fail("served-count-differs", "%d attempts reached every peer of an upstream but %d connections ended without error; %s", complete, okConns, desc())
	}
	if x.Used(explore.KTime) > 0 {
		x.Observe("time-deviation")
		return
	}
	if sc.HoldMS == 0 {
		// every connection has ended before the next arrives or retries: nothing is open, so
		// the 'first' policy starts every attempt at upstream 0
		for i, d := range r.dials {
			if d.Up == 1 && (i == 0 || r.dials[i-1].At != d.At) {
				// a dial of upstream 1 that is the first dial of its instant
				x.Fail("wrong-upstream", "upstream 1 was dialled at %.3fs although upstream 0 has no open connection and no failure tracking (a half-failed attempt must not stay counted); %s", float64(d.At)/1e9, desc())
				return
			}
		}
	}
	var sb strings.Builder
	for _, d := range r.dials {
		fmt.Fprintf(&sb, "%d.%d%v", d.Up, d.Peer, d.OK)
	}
	x.Observe(sb.String(), okConns)
}

// checkShared judges the family in which upstream 1 shares its only peer A with upstream 0,
// whose second peer B always refuses (no retries): an attempt at upstream 0 dials A and B and
// fails, remembering one failure for B only; while that is remembered upstream 0 is out of
// rotation and the connection is served by upstream 1, i.e. by a single dial of A.
func checkShared(x *explore.Exec, sc *Scn, r *result, desc func() string) {
	if x.Used(explore.KTime) > 0 {
		x.Observe("time-deviation")
		return
	}
	failDur := int64(sc.FailDurMS) * 1e6
	var failsB []int64
	di := 0
	for i, c := range r.conns {
		n := 0
		for _, f := range failsB {
			if c.Arrive >= f && c.Arrive < f+failDur {
				n++
			}
		}
		want := []int{0} // peers dialled: A
		wantErr := false
		if n < 1 {
			want, wantErr = []int{0, 1}, true // upstream 0: A, then B which refuses
		}
		for _, p := range want {
			if di >= len(r.dials) || r.dials[di].Peer != p || r.dials[di].At < c.Arrive || r.dials[di].At > c.Arrive+1000 {
				x.Fail("wrong-upstream", "connection %d (arrived %.3fs, %d failure(s) of peer B remembered) should dial peers %v of the shared-peer pool (0 = A, 1 = B) at once; %s", i, float64(c.Arrive)/1e9, n, want, desc())
				return
			}
			if p == 1 {
				failsB = append(failsB, r.dials[di].DoneAt)
			}
			di++
		}
		if !c.Returned || (c.Err != "") != wantErr {
			x.Fail("wrong-fate", "connection %d: returned=%v error=%q, expected an error: %v; %s", i, c.Returned, c.Err, wantErr, desc())
			return
		}
	}
	if di != len(r.dials) {
		x.Fail("unexpected-dial-time", "%d dials more than the connections account for; %s", len(r.dials)-di, desc())
	}
	x.Observe(len(r.dials))
}

func u2b(u int) int { return u }

func availableIgnoringConns(u int, fails [2][]int64, failDur int64, maxFails int, sc *Scn, down [2]bool, t int64) bool {
	if down[u] {
		return false
	}
	if sc.FailDurMS > 0 && maxFails > 0 {
		n := 0
		for _, f := range fails[u] {
			if t >= f && t < f+failDur {
				n++
			}
		}
		return n < maxFails
	}
	return true
}

func scenarios(tier string, yield0 func(any) bool) {
	yield := func(sc *Scn) bool {
		if only := os.Getenv("VERIF_ONLY"); only != "" && !strings.Contains(string(hm.J(sc)), only) {
			return true
		}
		return yield0(sc)
	}
	arrivalSets := [][]int{{0}, {0, 310}, {0, 310, 1070}, {0, 310, 1070, 2130, 2610}, {0, 130}, {0, 130, 4000}}
	for _, fd := range []int{0, 2000} {
		for _, mf := range []int{0, 1, 2} {
			if fd == 0 && mf > 1 {
				continue
			}
			for _, td := range []int{0, 1000} {
				for _, ti := range []int{250, 400} {
					if td == 0 && ti != 250 {
						continue
					}
					for _, arr := range arrivalSets {
						maxF := 3
						if tier == "thorough" {
							maxF = 5
						}
						if !yield(&Scn{FailDurMS: fd, MaxFails: mf, TryDurMS: td, TryIntMS: ti, Arrivals: arr, HoldMS: 0, MaxFailing: maxF}) {
							return
						}
					}
				}
			}
		}
	}
	// connection limits: connections stay open for a while
	for _, lim := range [][2]int{{1, 0}, {0, 1}, {2, 0}} {
		for _, arr := range [][]int{{0, 100}, {0, 100, 200}, {0, 100, 1500}} {
			for _, td := range []int{0, 1000} {
				if !yield(&Scn{FailDurMS: 0, MaxFails: 0, TryDurMS: td, TryIntMS: 250, MaxConns: lim[0], Unhealthy: lim[1], Arrivals: arr, HoldMS: 1000, MaxFailing: 0}) {
					return
				}
			}
		}
	}
	// mixed limits: upstream 0 has its own max_connections, upstream 1 falls back to the
	// handler-wide unhealthy_connection_count
	for _, arr := range [][]int{{0, 100, 200, 300}, {0, 100, 200, 300, 1500}} {
		for _, td := range []int{0, 1000} {
			if !yield(&Scn{TryDurMS: td, TryIntMS: 250, MaxConns0: 2, Unhealthy: 1, Arrivals: arr, HoldMS: 1000}) {
				return
			}
		}
	}
	// dials that fail only after 300 ms, so that two dials to one peer are in flight together and
	// fail at different times (no retries: one attempt per connection)
	for _, mf := range []int{1, 2} {
		for _, arr := range [][]int{{0, 130, 2200}, {0, 130, 270, 2260}, {0, 130, 2200, 2350}} {
			if !yield(&Scn{FailDurMS: 2000, MaxFails: mf, TryDurMS: 0, TryIntMS: 250, Arrivals: arr, MaxFailing: 3, SlowFail: true}) {
				return
			}
		}
	}
	// upstream 0 with two dial addresses: every vector of failing dials, with and without a limit
	for _, mc := range []int{0, 1, 2} {
		for _, arr := range [][]int{{0}, {0, 100}, {0, 100, 200}} {
			for _, td := range []int{0, 500} {
				for _, hold := range []int{0, 1000} {
					if hold > 0 && (mc == 0 || len(arr) < 2) {
						continue
					}
					if !yield(&Scn{TryDurMS: td, TryIntMS: 250, MaxConns: mc, Arrivals: arr, HoldMS: hold, MaxFailing: 3, Peers: 2}) {
						return
					}
				}
			}
		}
	}
	// a peer shared by two upstreams, next to a peer that always refuses
	for _, arr := range [][]int{{0, 300, 2500}, {0, 130, 1900, 2160, 2400}} {
		if !yield(&Scn{FailDurMS: 2000, MaxFails: 1, TryDurMS: 0, TryIntMS: 250, Arrivals: arr, Shared: true}) {
			return
		}
	}
	// a configuration reload while upstream state is live: remembered failures, open connections
	// and active-check verdicts established under the old instance hold under the new one
	for _, td := range []int{0, 1000} {
		for _, arr := range [][]int{{0, 520, 2700}, {0, 130, 2160, 2700}} {
			for _, rl := range []int{100, 400} {
				if !yield(&Scn{FailDurMS: 2000, MaxFails: 1, TryDurMS: td, TryIntMS: 250, Arrivals: arr, MaxFailing: 2, ReloadMS: rl}) {
					return
				}
			}
		}
	}
	for _, lim := range [][2]int{{1, 0}, {0, 1}} {
		if !yield(&Scn{TryDurMS: 0, TryIntMS: 250, MaxConns: lim[0], Unhealthy: lim[1], Arrivals: []int{0, 300, 1500}, HoldMS: 1000, ReloadMS: 100}) {
			return
		}
	}
	for _, rl := range []int{300, 1300, 2600} {
		if !yield(&Scn{ActiveMS: 1000, TryDurMS: 0, TryIntMS: 250, Arrivals: []int{200, 700, 1200, 1700, 2700, 3200, 4200}, Outage: [2]int{500, 2500}, ReloadMS: rl}) {
			return
		}
	}
	// active health checks with a scripted outage of upstream 0
	for _, out := range [][2]int{{500, 2500}, {0, 1200}, {1500, 1600}} {
		if !yield(&Scn{ActiveMS: 1000, TryDurMS: 0, TryIntMS: 250, Arrivals: []int{200, 700, 1200, 2700, 3200, 4200}, Outage: out}) {
			return
		}
		if !yield(&Scn{ActiveMS: 1000, TryDurMS: 0, TryIntMS: 250, Arrivals: []int{200, 700, 1200, 2700, 3200, 4200}, Outage: out, V6: true}) {
			return
		}
		// the same outages seen by both checkers: proxied dials fail during the outage (their
		// failures are forgotten fail_duration later) while the active checker marks the peer
		// down and, after the recovery, up again - before or after those failures expire
		for _, fd := range []int{700, 2000} {
			for _, mf := range []int{1, 2} {
				if !yield(&Scn{ActiveMS: 1000, FailDurMS: fd, MaxFails: mf, TryDurMS: 0, TryIntMS: 250, Arrivals: []int{200, 700, 1200, 2700, 3200, 4200}, Outage: out}) {
					return
				}
			}
		}
	}
}

func bounds(tier string) (explore.Bounds, int) {
	b := explore.DefaultBounds(1)
	b[explore.KSched] = 3
	b[explore.KFault] = explore.Unbounded
	if tier == "thorough" {
		return b, 2
	}
	return b, 1
}

func main() {
	runner.Main(&runner.Harness{
		ID:    "C11",
		Level: "model_checking",
		Rule:  "proxy handler with two single-peer upstreams (and a family in which upstream 0 has two dial addresses) and the 'first' policy: settings fail_duration {0,2 s} x max_fails {0,1,2} x try_duration {0,1 s} x try_interval {250,400 ms} x 6 arrival patterns (1-5 connections) with EVERY success/failure vector of the dials (up to 3, thorough 5, failing dials; in one family a failing dial may also fail only after 300 ms, so that dials to one peer overlap); max_connections / unhealthy_connection_count {1,2} with overlapping 1 s connections; active checks (1 s) with scripted outages, alone and together with passive failure tracking (fail_duration 0.7/2 s, max_fails 1/2); x every interleaving within the delay budget. A reference model (failure timestamps per peer, open connections per upstream, active-check verdicts) replays the same dial outcomes and predicts every dial's target and every connection's fate and give-up time; configuration reloads (a second instance provisioned, the old one unloaded 20 ms later) while failures are remembered, connections are open or an outage is being tracked by the active checker: upstream state carries over, a connection waiting to retry under the unloaded instance gives up at that moment",
		Assumptions: []string{
			"arrival instants are chosen so that no dial coincides with a failure's expiry instant",
			"timing clauses are only asserted on executions without timer deviations",
		},
		Scenarios: scenarios,
		Run: func(tier string, scAny any, rep *runner.Report) {
			sc := scAny.(*Scn)
			b, tot := bounds(tier)
			ex := explore.New(b)
			ex.Total = tot
			ex.Stop = rep.Expired
			vsched.StateSink = rep.State
			ex.Explore(func(x *explore.Exec) { check(x, sc, execute(x, sc)) })
			rep.AddStats(sc, &ex.Stats)
		},
		DecodeScenario: func(raw json.RawMessage) (any, error) {
			sc := &Scn{}
			return sc, json.Unmarshal(raw, sc)
		},
		Replay: func(scAny any, choices []int) []explore.Failure {
			sc := scAny.(*Scn)
			b, _ := bounds("thorough")
			ex := explore.New(b)
			return ex.RunOnce(choices, func(x *explore.Exec) { check(x, sc, execute(x, sc)) }).Failures
		},
		Budget: func(tier string) time.Duration {
			if tier == "thorough" {
				return 25 * time.Minute
			}
			return 120 * time.Second
		},
	})
}
