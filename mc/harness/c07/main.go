//go:build verif

// C07: the TLS matcher reads SNI/ALPN/versions/cipher suites/curves exactly as Go's TLS
// server does.  Every ClientHello crypto/tls emits for a product of client configurations
// (and byte-level mutations that crypto/tls still accepts) is parsed by the matcher's parser
// and by crypto/tls itself (tls.Server with a GetConfigForClient hook); the real matcher's
// verdicts with sni/alpn sub-matchers are compared with the same sub-matchers applied to
// crypto/tls's view.  Every proper prefix must be undecided, every non-handshake record a no.
package main

import (
	"bytes"
	"crypto/tls"
	"encoding/hex"
	"encoding/json"
	"errors"
	"fmt"
	"io"
	"net"
	"reflect"
	"strings"
	"time"

	"github.com/caddyserver/caddy/v2"

	"github.com/mholt/caddy-l4/layer4"
	"github.com/mholt/caddy-l4/modules/l4tls"

	"verif/mc/explore"
	"verif/mc/hm/htls"
	"verif/mc/mrun"
	"verif/mc/runner"
)

type ClientCfg struct {
	Name    string   `json:"server_name"`
	ALPN    []string `json:"alpn"`
	Min     uint16   `json:"min"`
	Max     uint16   `json:"max"`
	Ciphers int      `json:"ciphers"`          // index into cipherSets
	Curves  int      `json:"curves"`           // index into curveSets
	Resume  bool     `json:"resume,omitempty"` // the hello of a second connection after a full handshake (ticket / PSK)
}

type Scn struct {
	Cfg   ClientCfg `json:"client"`
	Hello string    `json:"hello,omitempty"` // hex record (replay of mutations)
}

var cipherSets = [][]uint16{nil,
																	{tls.TLS_ECDHE_RSA_WITH_AES_128_GCM_SHA256, tls.TLS_ECDHE_ECDSA_WITH_CHACHA20_POLY1305},
																	{tls.TLS_RSA_WITH_AES_256_CBC_SHA, tls.TLS_ECDHE_RSA_WITH_AES_256_GCM_SHA384, tls.TLS_ECDHE_ECDSA_WITH_AES_128_GCM_SHA256}}
var curveSets = [][]tls.CurveID{nil, {tls.CurveP256}, {tls.X25519, tls.CurveP384}, {tls.X25519, tls.CurveID(0x3a3a), tls.CurveP384}} // the last one carries a reserved GREASE value (RFC 8701), as browsers send

func (c ClientCfg) tls() *tls.Config {
	return &tls.Config{ServerName: c.Name, NextProtos: c.ALPN, MinVersion: c.Min, MaxVersion: c.Max,
		CipherSuites: cipherSets[c.Ciphers], CurvePreferences: curveSets[c.Curves], InsecureSkipVerify: true}
}

// ---- resumption hellos ---------------------------------------------------------------------------

// addrConn gives the pipe the same remote address as the capturing connection, so that the
// client session cache (keyed by server name, else by remote address) hits.
type addrConn struct{ net.Conn }

func (addrConn) RemoteAddr() net.Addr { return &net.TCPAddr{} }

var resumeServer = &tls.Config{Certificates: htls.ServerConfig.Certificates, MinVersion: tls.VersionTLS10}

// resumedHello completes one real handshake against crypto/tls's server (which issues a
// session ticket) and returns the ClientHello of the next connection of the same client:
// a non-empty session_ticket extension up to TLS 1.2, a pre_shared_key extension in TLS 1.3.
func resumedHello(cfg *tls.Config) ([]byte, error) {
	cfg.ClientSessionCache = tls.NewLRUClientSessionCache(4)
	c, s := net.Pipe()
	done := make(chan struct{})
	go func() {
		defer close(done)
		srv := tls.Server(s, resumeServer)
		if srv.Handshake() == nil {
			srv.Write([]byte{1})
		}
		io.Copy(io.Discard, srv)
		srv.Close()
	}()
	cl := tls.Client(addrConn{c}, cfg)
	err := cl.Handshake()
	if err == nil {
		_, err = io.ReadFull(cl, make([]byte, 1)) // TLS 1.3 tickets arrive after the handshake
	}
	cl.Close()
	<-done
	if err != nil {
		return nil, err
	}
	return mrun.ClientHello(cfg), nil
}

// extLen returns the body length of extension id in a ClientHello record, -1 if absent.
func extLen(record []byte, id uint16) int {
	p := 5 + 4 + 2 + 32 // record header, handshake header, version, random
	skip := func(lenBytes int) bool {
		if p+lenBytes > len(record) {
			return false
		}
		n := 0
		for i := 0; i < lenBytes; i++ {
			n = n<<8 | int(record[p+i])
		}
		p += lenBytes + n
		return p <= len(record)
	}
	if !skip(1) || !skip(2) || !skip(1) || p+2 > len(record) {
		return -1
	}
	p += 2
	for p+4 <= len(record) {
		t := uint16(record[p])<<8 | uint16(record[p+1])
		n := int(record[p+2])<<8 | int(record[p+3])
		if t == id {
			return n
		}
		p += 4 + n
	}
	return -1
}

// withCipher appends one cipher suite value to the hello's list (record, handshake and list
// lengths adjusted): values crypto/tls clients never send but other stacks do - the
// renegotiation and fallback signalling values, GREASE, an unknown suite.
func withCipher(record []byte, cs uint16) []byte {
	p := 5 + 4 + 2 + 32
	if p >= len(record) {
		return nil
	}
	p += 1 + int(record[p]) // session id
	if p+2 > len(record) {
		return nil
	}
	n := int(record[p])<<8 | int(record[p+1])
	end := p + 2 + n
	if end > len(record) {
		return nil
	}
	out := append([]byte(nil), record[:end]...)
	out = append(out, byte(cs>>8), byte(cs))
	out = append(out, record[end:]...)
	put16 := func(at, v int) { out[at], out[at+1] = byte(v>>8), byte(v) }
	put16(p, n+2)
	put16(3, (int(record[3])<<8|int(record[4]))+2)
	hl := int(record[6])<<16 | int(record[7])<<8 | int(record[8])
	hl += 2
	out[6], out[7], out[8] = byte(hl>>16), byte(hl>>8), byte(hl)
	return out
}

func helloOf(c ClientCfg, rep *runner.Report) []byte {
	if !c.Resume {
		return mrun.ClientHello(c.tls())
	}
	rec, err := resumedHello(c.tls())
	if err != nil {
		if rep != nil {
			rep.Incident("RESUME-HANDSHAKE-FAILED")
			rep.Note(fmt.Sprintf("resume handshake failed for %v: %v", c, err))
		}
		return nil
	}
	if extLen(rec, 35) <= 0 && extLen(rec, 41) <= 0 {
		if rep != nil {
			rep.Incident("RESUME-HELLO-WITHOUT-TICKET")
		}
		return nil
	}
	return rec
}

// ---- reference: what crypto/tls's server sees for these bytes --------------------------------

type feedConn struct {
	r io.Reader
}

func (c *feedConn) Read(p []byte) (int, error)       { return c.r.Read(p) }
func (c *feedConn) Write(p []byte) (int, error)      { return len(p), nil }
func (c *feedConn) Close() error                     { return nil }
func (c *feedConn) LocalAddr() net.Addr              { return &net.TCPAddr{} }
func (c *feedConn) RemoteAddr() net.Addr             { return &net.TCPAddr{} }
func (c *feedConn) SetDeadline(time.Time) error      { return nil }
func (c *feedConn) SetReadDeadline(time.Time) error  { return nil }
func (c *feedConn) SetWriteDeadline(time.Time) error { return nil }

var errStop = errors.New("stop after ClientHello")

func reference(record []byte) *tls.ClientHelloInfo {
	var got *tls.ClientHelloInfo
	srv := tls.Server(&feedConn{r: bytes.NewReader(record)}, &tls.Config{
		GetConfigForClient: func(h *tls.ClientHelloInfo) (*tls.Config, error) {
			cp := *h
			got = &cp
			return nil, errStop
		}})
	srv.Handshake()
	return got
}

// ---- comparison ----------------------------------------------------------------------------------

var matcherCfgs = []string{`{"sni":["a.test"]}`, `{"sni":["*.test"]}`, `{"alpn":["h2"]}`, `{"sni":["*.test"],"alpn":["http/1.1","h2"]}`, `{"sni":["A.TEST"]}`}

type loaded struct {
	cfg string
	l   *mrun.Loaded
	ref func(*tls.ClientHelloInfo) bool
}

var matchers []loaded

func sniMatch(pats []string, name string) bool {
	// caddytls.MatchServerName: exact or wildcard (certmagic.MatchWildcard: one label, case-insensitive)
	name = strings.ToLower(name)
	for _, p := range pats {
		p = strings.ToLower(p)
		if p == name {
			return true
		}
		if strings.HasPrefix(p, "*.") {
			if i := strings.Index(name, "."); i > 0 && name[i:] == p[1:] {
				return true
			}
		}
	}
	return false
}

var plain *mrun.Loaded // the tls matcher without sub-matchers

func loadMatchers() {
	var err error
	if plain, err = mrun.Load(mrun.Spec{Module: "tls", Config: json.RawMessage(`{}`)}); err != nil {
		panic(err)
	}
	for _, c := range matcherCfgs {
		l, err := mrun.Load(mrun.Spec{Module: "tls", Config: json.RawMessage(c)})
		if err != nil {
			panic(err)
		}
		var cfg struct {
			SNI  []string `json:"sni"`
			ALPN []string `json:"alpn"`
		}
		json.Unmarshal([]byte(c), &cfg)
		matchers = append(matchers, loaded{c, l, func(h *tls.ClientHelloInfo) bool {
			if len(cfg.SNI) > 0 && !sniMatch(cfg.SNI, h.ServerName) {
				return false
			}
			if len(cfg.ALPN) > 0 {
				ok := false
				for _, a := range cfg.ALPN {
					for _, b := range h.SupportedProtos {
						ok = ok || a == b
					}
				}
				return ok
			}
			return true
		}})
	}
}

func eq[T comparable](a, b []T) bool {
	if len(a) == 0 && len(b) == 0 {
		return true
	}
	return reflect.DeepEqual(a, b)
}

// judge compares one record; returns number of comparisons done.
func judge(record []byte, what string, fail func(sig, msg string)) (compared bool) {
	ref := reference(record)
	if ref == nil {
		return false // crypto/tls rejects these bytes: nothing to agree on
	}
	if len(record) < 5 {
		return false
	}
	n := int(record[3])<<8 | int(record[4])
	if 5+n > len(record) {
		return false
	}
	got := l4tls.VerifParseHello(record[5 : 5+n])
	g := got.ClientHelloInfo
	diff := func(field string, a, b any) {
		fail("field-differs:"+field, fmt.Sprintf("%s: the matcher's parser reads %s=%v, crypto/tls reads %v (record %x)", what, field, a, b, record))
	}
	if g.ServerName != ref.ServerName {
		diff("ServerName", g.ServerName, ref.ServerName)
	}
	if !eq(g.SupportedProtos, ref.SupportedProtos) {
		diff("SupportedProtos", g.SupportedProtos, ref.SupportedProtos)
	}
	if !eq(g.SupportedVersions, ref.SupportedVersions) {
		diff("SupportedVersions", g.SupportedVersions, ref.SupportedVersions)
	}
	if !eq(g.CipherSuites, ref.CipherSuites) {
		diff("CipherSuites", g.CipherSuites, ref.CipherSuites)
	}
	if !eq(g.SupportedCurves, ref.SupportedCurves) {
		diff("SupportedCurves", g.SupportedCurves, ref.SupportedCurves)
	}
	if !eq(g.SignatureSchemes, ref.SignatureSchemes) {
		diff("SignatureSchemes", g.SignatureSchemes, ref.SignatureSchemes)
	}
	if !eq(g.SupportedPoints, ref.SupportedPoints) {
		diff("SupportedPoints", g.SupportedPoints, ref.SupportedPoints)
	}
	for _, m := range matchers {
		cx, _ := mrun.Conn(record, false)
		v := m.l.Eval(cx)
		want := "no"
		if m.ref(ref) {
			want = "yes"
		}
		if v.V != want {
			fail("verdict-differs", fmt.Sprintf("%s: tls matcher %s says %s, the same sub-matchers on crypto/tls's view (sni %q alpn %v) say %s (record %x)", what, m.cfg, v, ref.ServerName, ref.SupportedProtos, want, record))
		}
		if v.V == "yes" || v.V == "no" {
			checkPlaceholders(cx, record, ref, what, fail)
		}
	}
	// the same hello travelling inside a connection on which another hello was matched before
	// (TLS in TLS: the terminating handler hands the inner stream on with the outer context)
	for i, e := range earlier() {
		outer, _ := mrun.Conn(e, false)
		if v := plain.Eval(outer); v.V != "yes" {
			fail("verdict-differs", fmt.Sprintf("standing hello %d is not matched by the unfiltered tls matcher: %s", i, v))
			continue
		}
		inner := mrun.ConnOn(outer, record)
		if v := plain.Eval(inner); v.V == "yes" {
			checkPlaceholders(inner, record, ref, fmt.Sprintf("%s, matched inside a connection whose outer hello (standing hello %d) was matched first", what, i), fail)
		} else {
			fail("verdict-differs", fmt.Sprintf("%s: the unfiltered tls matcher says %s inside a wrapped connection (record %x)", what, v, record))
		}
	}
	return true
}

// checkPlaceholders: {l4.tls.server_name} is the server name crypto/tls reports, {l4.tls.version}
// the client_version field of the hello (bytes 9..10 of the record), for the hello matched last.
func checkPlaceholders(cx *layer4.Connection, record []byte, ref *tls.ClientHelloInfo, what string, fail func(sig, msg string)) {
	repl := cx.Context.Value(layer4.ReplacerCtxKey).(*caddy.Replacer)
	if sn, _ := repl.GetString("l4.tls.server_name"); sn != ref.ServerName {
		fail("placeholder-differs", fmt.Sprintf("%s: {l4.tls.server_name}=%q, crypto/tls sees %q (record %x)", what, sn, ref.ServerName, record))
	}
	if len(record) >= 11 {
		want := fmt.Sprint(uint16(record[9])<<8 | uint16(record[10]))
		if v, _ := repl.Get("l4.tls.version"); fmt.Sprint(v) != want {
			fail("placeholder-differs", fmt.Sprintf("%s: {l4.tls.version}=%v, the hello's client_version is %s (record %x)", what, v, want, record))
		}
	}
}

var standing [][]byte

// earlier returns two standing hellos that differ from each other in server name and version.
func earlier() [][]byte {
	if standing == nil {
		standing = [][]byte{
			mrun.ClientHello(&tls.Config{ServerName: "outer.example.com", MinVersion: tls.VersionTLS12, MaxVersion: tls.VersionTLS13}),
			mrun.ClientHello(&tls.Config{InsecureSkipVerify: true, MinVersion: tls.VersionTLS10, MaxVersion: tls.VersionTLS11}),
		}
	}
	return standing
}

func prefixesAndTypes(record []byte, tier string, fail func(sig, msg string)) int {
	n := 0
	m := matchers[0]
	for i := 0; i < len(record); i++ {
		if tier != "thorough" && !(i <= 8 || i%16 == 0 || i >= len(record)-8) {
			continue
		}
		cx, _ := mrun.Conn(record[:i], false)
		if v := m.l.Eval(cx); v.V != "more" {
			fail("incomplete-hello-decided", fmt.Sprintf("the tls matcher says %s on the %d-byte prefix of a %d-byte ClientHello record %x", v, i, len(record), record))
		}
		n++
	}
	for b := 0; b < 256; b++ {
		if b == 0x16 {
			continue
		}
		r := append([]byte{byte(b)}, record[1:]...)
		for _, mm := range matchers[:1] {
			cx, _ := mrun.Conn(r, false)
			if v := mm.l.Eval(cx); v.V != "no" {
				fail("non-handshake-record-not-rejected", fmt.Sprintf("the tls matcher says %s on a record of type %#x", v, b))
			}
			n++
		}
	}
	return n
}

func scenarios(tier string, yield func(any) bool) {
	names := []string{"", "a.test", strings.Repeat("a23456789.", 25) + "bb", "xn--bcher-kva.test", "A.TEST", "deep.sub.a.test"}
	alpns := [][]string{nil, {"h2"}, {"h2", "http/1.1"}, {strings.Repeat("p", 255)}, {"http/1.1"}}
	vers := [][2]uint16{{tls.VersionTLS10, tls.VersionTLS13}, {tls.VersionTLS12, tls.VersionTLS12}, {tls.VersionTLS13, tls.VersionTLS13}, {tls.VersionTLS12, tls.VersionTLS13}, {tls.VersionTLS10, tls.VersionTLS11}}
	for _, n := range names {
		for _, a := range alpns {
			for _, v := range vers {
				for ci := range cipherSets {
					for cu := range curveSets {
						if !yield(&Scn{Cfg: ClientCfg{Name: n, ALPN: a, Min: v[0], Max: v[1], Ciphers: ci, Curves: cu}}) {
							return
						}
						// the same client reconnecting (Ed25519 server certificate: TLS 1.2 and later)
						if v[1] >= tls.VersionTLS12 && (len(n) < 100 || ci == 0) {
							if !yield(&Scn{Cfg: ClientCfg{Name: n, ALPN: a, Min: v[0], Max: v[1], Ciphers: ci, Curves: cu, Resume: true}}) {
								return
							}
						}
					}
				}
			}
		}
	}
}

func main() {
	loadMatchers()
	runner.Main(&runner.Harness{
		ID:          "C07",
		Level:       "model_checking",
		Rule:        "ClientHellos emitted by crypto/tls for the product of server names {none, a.test, 252 characters, punycode, upper case, sub-sub-domain} x ALPN lists {none,[h2],[h2,http/1.1],[255-byte id],[http/1.1]} x version ranges {1.0-1.3, 1.2, 1.3, 1.2-1.3, 1.0-1.1} x 3 cipher preference lists x 4 curve preference lists (one with a GREASE value), each also as the hello of the same client reconnecting after a full handshake (non-empty session_ticket extension up to TLS 1.2, pre_shared_key + psk_key_exchange_modes in TLS 1.3); each compared field by field (server name, ALPN, versions, cipher suites, curves, signature schemes, point formats) with crypto/tls's own view of the same bytes and through 5 sni/alpn matcher configurations; cipher-suite values other stacks send (renegotiation/fallback SCSV, GREASE, unknown) appended to the list with all lengths adjusted; single-byte mutations {00, FF, +1, -1} at every position of the hellos with default cipher/curve lists (all hellos in thorough), compared whenever crypto/tls still accepts them; proper prefixes (0..8, every 16th, last 8; all in thorough) must be undecided; all 255 other record types must be rejected; every compared hello is also matched inside a connection (cx.Wrap, shared context) on which one of two standing hellos (SNI + TLS 1.2-1.3 / no SNI + TLS 1.0-1.1) was matched first, and {l4.tls.server_name} and {l4.tls.version} must describe the hello matched last",
		Assumptions: []string{"resumption hellos come from one real handshake against crypto/tls's server with an Ed25519 certificate (TLS 1.2 ticket / TLS 1.3 PSK); their random parts differ from run to run, failures carry the exact record", "a ClientHello fragmented over several TLS records is not generated (crypto/tls clients never do)"},
		Scenarios:   scenarios,
		Run: func(tier string, scAny any, rep *runner.Report) {
			sc := scAny.(*Scn)
			rep.Scenarios++
			record := helloOf(sc.Cfg, rep)
			if sc.Cfg.Resume && record == nil {
				return // counted as incident
			}
			fail := func(rec []byte) func(sig, msg string) {
				return func(sig, msg string) {
					one := *sc
					one.Hello = hex.EncodeToString(rec)
					rep.Fail(&one, sig, msg, nil)
				}
			}
			if len(record) == 0 {
				rep.Incident("NO-HELLO")
				return
			}
			if judge(record, "hello of "+fmt.Sprint(sc.Cfg), fail(record)) {
				rep.Nontrivial++
			} else {
				rep.Fail(sc, "reference-rejects-own-hello", "crypto/tls's server does not accept the hello crypto/tls's client emitted", nil)
			}
			rep.Executions += int64(len(matchers)) + 3
			rep.States++
			k := prefixesAndTypes(record, tier, fail(record))
			rep.Executions += int64(k)
			rep.States += int64(k)
			// cipher-suite values other stacks send, appended to the list
			if tier == "thorough" || sc.Cfg.Curves == 0 {
				for _, cs := range []uint16{0x00ff, 0x5600, 0x0a0a, 0xfafa, 0x1301, 0xc0ff} {
					if m := withCipher(record, cs); m != nil {
						if judge(m, fmt.Sprintf("cipher suite %#04x appended to the hello", cs), fail(m)) {
							rep.Nontrivial++
						}
						rep.Executions += int64(len(matchers)) + 3
						rep.States++
					}
				}
			}
			// mutations: a subset of configurations in quick, all in thorough
			if tier == "thorough" || (sc.Cfg.Ciphers == 0 && sc.Cfg.Curves == 0) {
				for i := 0; i < len(record); i++ {
					for _, d := range []byte{0, 0xff, record[i] + 1, record[i] - 1} {
						if d == record[i] {
							continue
						}
						m := append([]byte(nil), record...)
						m[i] = d
						if judge(m, fmt.Sprintf("byte %d of the hello set to %#x", i, d), fail(m)) {
							rep.Nontrivial++
						}
						rep.Executions += int64(len(matchers)) + 3
						rep.States++
					}
				}
			}
			rep.Transitions = rep.Executions
			rep.Outcome(uint64(len(record)))
		},
		DecodeScenario: func(raw json.RawMessage) (any, error) {
			sc := &Scn{}
			return sc, json.Unmarshal(raw, sc)
		},
		Replay: func(scAny any, _ []int) []explore.Failure {
			sc := scAny.(*Scn)
			rec, _ := hex.DecodeString(sc.Hello)
			if len(rec) == 0 {
				rec = helloOf(sc.Cfg, nil)
			}
			var out []explore.Failure
			f := func(sig, msg string) { out = append(out, explore.Failure{Sig: sig, Msg: msg}) }
			judge(rec, "replay", f)
			prefixesAndTypes(rec, "thorough", f)
			return out
		},
		Budget: func(tier string) time.Duration {
			if tier == "thorough" {
				return 25 * time.Minute
			}
			return 120 * time.Second
		},
	})
}
