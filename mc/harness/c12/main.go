//go:build verif

// C12 (receive side): PROXY protocol headers are stripped and honoured.
// Sequential exhaustive exploration: header variants from an independent encoder written
// from the HAProxy specification x payloads x allow lists x every split point (short cases)
// or bounded read deviations (long cases), through the real matcher + handler in a real
// route list followed by a remote_ip matcher and an address-recording handler.
package main

import (
	"context"
	"encoding/binary"
	"encoding/json"
	"fmt"
	"net"
	"strings"
	"time"

	"github.com/caddyserver/caddy/v2"
	"github.com/caddyserver/caddy/v2/caddyconfig"
	"github.com/caddyserver/caddy/v2/caddyconfig/caddyfile"
	"go.uber.org/zap"

	"github.com/mholt/caddy-l4/layer4"
	"github.com/mholt/caddy-l4/modules/l4proxyprotocol"
	_ "github.com/mholt/caddy-l4/modules/l4proxyprotocol"
	_ "github.com/mholt/caddy-l4/modules/l4subroute"

	"verif/mc/explore"
	"verif/mc/hm"
	"verif/mc/runner"
)

// ---- independent PROXY protocol encoder (from the HAProxy spec) ---------------------------

type Hdr struct {
	V     int    `json:"v"`   // 1 | 2
	Cmd   string `json:"cmd"` // PROXY | LOCAL (v2)
	Fam   string `json:"fam"` // TCP4 TCP6 UDP4 UDP6 UNKNOWN/UNSPEC
	Src   string `json:"src"`
	Dst   string `json:"dst"`
	SPort int    `json:"sport"`
	DPort int    `json:"dport"`
	TLV   int    `json:"tlv"` // -1 none, else one TLV (type 0x04 NOOP) with this many value bytes
}

var v2sig = []byte{0x0D, 0x0A, 0x0D, 0x0A, 0x00, 0x0D, 0x0A, 0x51, 0x55, 0x49, 0x54, 0x0A}

func (h Hdr) Encode() []byte {
	if h.V == 1 {
		if h.Fam == "UNKNOWN" {
			return []byte("PROXY UNKNOWN\r\n")
		}
		return []byte(fmt.Sprintf("PROXY %s %s %s %d %d\r\n", h.Fam, h.Src, h.Dst, h.SPort, h.DPort))
	}
	out := append([]byte(nil), v2sig...)
	cmd := byte(0x21)
	if h.Cmd == "LOCAL" {
		cmd = 0x20
	}
	var fam byte
	var addr []byte
	port := func(p int) []byte { b := make([]byte, 2); binary.BigEndian.PutUint16(b, uint16(p)); return b }
	switch h.Fam {
	case "TCP4", "UDP4":
		fam = 0x11
		if h.Fam == "UDP4" {
			fam = 0x12
		}
		addr = append(addr, net.ParseIP(h.Src).To4()...)
		addr = append(addr, net.ParseIP(h.Dst).To4()...)
		addr = append(addr, port(h.SPort)...)
		addr = append(addr, port(h.DPort)...)
	case "TCP6", "UDP6":
		fam = 0x21
		if h.Fam == "UDP6" {
			fam = 0x22
		}
		addr = append(addr, net.ParseIP(h.Src).To16()...)
		addr = append(addr, net.ParseIP(h.Dst).To16()...)
		addr = append(addr, port(h.SPort)...)
		addr = append(addr, port(h.DPort)...)
	default:
		fam = 0x00
	}
	if h.TLV >= 0 {
		addr = append(addr, 0x04, byte(h.TLV>>8), byte(h.TLV))
		for i := 0; i < h.TLV; i++ {
			addr = append(addr, 0)
		}
	}
	out = append(out, cmd, fam)
	out = append(out, port(len(addr))...)
	return append(out, addr...)
}

// Declares reports whether the header carries addresses that replace the socket's.
func (h Hdr) Declares() bool {
	if h.V == 1 {
		return h.Fam != "UNKNOWN"
	}
	return h.Cmd == "PROXY" && h.Fam != "UNSPEC"
}

// ---- recording handler ---------------------------------------------------------------------

type rec struct {
	id          string
	remote      string
	local       string
	placeholder string
	data        []byte
	err         string
	armed       bool // the transport carried a read deadline when this handler started
}

var Recs []rec

// curConn is the scripted transport of the execution under way.
var curConn *hm.SConn

type AddrRec struct {
	ID string `json:"id"`
}

func (*AddrRec) CaddyModule() caddy.ModuleInfo {
	return caddy.ModuleInfo{ID: "layer4.handlers.h_addr", New: func() caddy.Module { return new(AddrRec) }}
}

func (h *AddrRec) Handle(cx *layer4.Connection, _ layer4.Handler) error {
	repl := cx.Context.Value(layer4.ReplacerCtxKey).(*caddy.Replacer)
	r := rec{id: h.ID, remote: cx.RemoteAddr().String(), local: cx.LocalAddr().String(),
		placeholder: repl.ReplaceAll("{l4.conn.remote_addr}|{l4.conn.local_addr}", "")}
	r.armed = curConn != nil && !curConn.Deadline.IsZero()
	data, err := hm.ReadAll(cx, 1500, 0)
	r.data = data
	if err != nil {
		r.err = err.Error()
	}
	Recs = append(Recs, r)
	return nil
}

func init() { caddy.RegisterModule(&AddrRec{}) }

// ---- scenario -------------------------------------------------------------------------------

type Scn struct {
	H       Hdr      `json:"hdr"`
	Payload int      `json:"payload"`
	Allow   []string `json:"allow"`
	Peer    string   `json:"peer"` // socket peer address "ip:port"
	Need    int      `json:"need"` // an extra matcher in front needs this many bytes (forces prefetching past the header)
	// Timeout: the handler's header timeout in ms (0: option absent).  Direct: the recording
	// handler follows the PROXY handler in the same route instead of sitting in a subroute
	// PeerNet: the socket peer is a UDP ("udp") or unix-socket ("unix") address instead of TCP; a
	// peer without an IP address is inside no allow list
	PeerNet string `json:"peer_net,omitempty"`
	Timeout int    `json:"timeout,omitempty"`
	// Form "caddyfile": the handler's options are written as a Caddyfile block, one allow line per
	// range (with the timeout line between them), and parsed by the handler's UnmarshalCaddyfile
	Form   string `json:"form,omitempty"`
	Direct bool   `json:"direct,omitempty"`
}

func payload(n int) []byte {
	p := make([]byte, n)
	for i := range p {
		p[i] = byte((i*7+i/251)%200 + 33)
	}
	return p
}

func ipOf(s string) string {
	h, _, err := net.SplitHostPort(s)
	if err != nil {
		return s
	}
	return h
}

func allowed(sc *Scn) bool {
	if len(sc.Allow) == 0 {
		return true
	}
	if sc.PeerNet == "unix" {
		return false
	}
	ip := net.ParseIP(ipOf(sc.Peer))
	for _, c := range sc.Allow {
		_, n, err := net.ParseCIDR(c)
		if err == nil && n.Contains(ip) {
			return true
		}
	}
	return false
}

func cidrOf(ip string) string {
	if strings.Contains(ip, ":") {
		return ip + "/128"
	}
	return ip + "/32"
}

type built struct {
	routes layer4.RouteList
	cancel context.CancelFunc
}

func build(sc *Scn) *built {
	pp := map[string]any{"handler": "proxy_protocol"}
	if len(sc.Allow) > 0 {
		pp["allow"] = sc.Allow
	}
	if sc.Timeout > 0 {
		pp["timeout"] = fmt.Sprintf("%dms", sc.Timeout)
	}
	if sc.Form == "caddyfile" {
		var sb strings.Builder
		sb.WriteString("proxy_protocol {\n")
		for i, a := range sc.Allow {
			fmt.Fprintf(&sb, "\tallow %s\n", a)
			if i == 0 && sc.Timeout > 0 {
				fmt.Fprintf(&sb, "\ttimeout %dms\n", sc.Timeout)
			}
		}
		sb.WriteString("}\n")
		h := &l4proxyprotocol.Handler{}
		if err := h.UnmarshalCaddyfile(caddyfile.NewTestDispenser(sb.String())); err != nil {
			panic(fmt.Sprintf("the proxy_protocol block does not parse: %v\n%s", err, sb.String()))
		}
		pp = map[string]any{}
		json.Unmarshal(caddyconfig.JSONModuleObject(h, "handler", "proxy_protocol", nil), &pp)
	}
	first := []map[string]any{{"proxy_protocol": map[string]any{}}}
	if sc.Need > 0 {
		first = []map[string]any{{"proxy_protocol": map[string]any{}, "h_need": map[string]any{"k": sc.Need, "mode": "peek"}}}
	}
	declared := sc.H.Src
	if declared == "" {
		declared = "203.0.113.200"
	}
	// the routes that follow the header sit in a subroute behind the PROXY handler: as top-level
	// siblings a catch-all route could legitimately overtake the still undecided PROXY route
	// when the header arrives in fragments (C02)
	inner := []map[string]any{
		{"match": []map[string]any{{"remote_ip": map[string]any{"ranges": []string{cidrOf(declared)}}}}, "handle": []map[string]any{{"handler": "h_addr", "id": "declared-source-route"}}},
		{"handle": []map[string]any{{"handler": "h_addr", "id": "other-route"}}},
	}
	routes := []map[string]any{
		{"match": first, "handle": []map[string]any{pp, {"handler": "subroute", "routes": inner}}},
	}
	if sc.Direct {
		routes = []map[string]any{
			{"match": first, "handle": []map[string]any{pp, {"handler": "h_addr", "id": "declared-source-route"}}},
		}
	}
	var rl layer4.RouteList
	if err := json.Unmarshal(hm.J(routes), &rl); err != nil {
		panic(err)
	}
	ctx, cancel := caddy.NewContext(caddy.Context{Context: context.Background()})
	if err := rl.Provision(ctx); err != nil {
		panic(fmt.Sprintf("provision %s: %v", hm.J(sc), err))
	}
	return &built{rl, cancel}
}

var nop = zap.NewNop()

func execute(x *explore.Exec, sc *Scn, b *built) {
	hdr := sc.H.Encode()
	P := payload(sc.Payload)
	stream := append(append([]byte(nil), hdr...), P...)
	conn := hm.NewSConn(x, stream, true)
	// the last bytes may arrive together with end-of-stream (quick: short payloads only)
	conn.EOFWithData = sc.Payload <= 1 || thoroughTier
	peer, _ := net.ResolveTCPAddr("tcp", sc.Peer)
	conn.Remote = peer
	switch sc.PeerNet {
	case "udp":
		conn.Remote = &net.UDPAddr{IP: peer.IP, Port: peer.Port}
	case "unix":
		conn.Remote = &net.UnixAddr{Name: "/run/peer.sock", Net: "unix"}
	}
	if len(stream) > 40 {
		conn.Menu = hm.StdMenu(1, len(hdr)-1, len(hdr), len(hdr)+1, 2047, 2048, 4096, 4097)
	}
	Recs = nil
	curConn = conn
	fellThrough := false
	h := b.routes.Compile(nop, time.Second, layer4.HandlerFunc(func(*layer4.Connection) error { fellThrough = true; return nil }))
	cx := layer4.WrapConnection(conn, make([]byte, 0, 2048), nop)
	err := h.Handle(cx)
	desc := func() string {
		var sb strings.Builder
		for _, r := range Recs {
			fmt.Fprintf(&sb, "%s(remote=%s local=%s placeholders=%s read %d bytes %s) ", r.id, r.remote, r.local, r.placeholder, len(r.data), r.err)
		}
		return fmt.Sprintf("scenario=%s header=%q reads=%v err=%v fellThrough=%v %s", hm.J(sc), hdr, conn.ReadLog, err, fellThrough, sb.String())
	}
	class := fmt.Sprintf("v%d-%s-%s", sc.H.V, sc.H.Cmd, sc.H.Fam)
	if err != nil && sc.H.TLV >= 0 {
		// headers with TLV blocks are not accepted by the PROXY protocol library this tree
		// pins; the property speaks about accepted headers only
		x.Observe("tlv-not-accepted")
		return
	}
	if err != nil {
		x.Fail("handle-error:"+class, "Handle failed on a well-formed PROXY header: %v; %s", err, desc())
		return
	}
	if len(Recs) != 1 {
		x.Fail("no-handler-ran:"+class, "expected exactly one recording handler to run, got %d; %s", len(Recs), desc())
		return
	}
	r := Recs[0]
	if r.armed {
		x.Fail("deadline-armed-after-header", "the handler behind the PROXY handler started with a read deadline (%v) still armed on the transport: a client that pauses for longer than the header timeout loses the rest of its stream; %s", conn.Deadline, desc())
	}
	sockRemote, sockLocal := conn.Remote.String(), conn.Local.String()
	if allowed(sc) {
		if string(r.data) != string(P) {
			x.Fail("payload-not-exact:"+class, "after the header was accepted the handler read %d bytes, the payload is %d bytes (first difference at %d); %s", len(r.data), len(P), firstDiff(r.data, P), desc())
		}
		wantR, wantL := sockRemote, sockLocal
		if sc.H.Declares() {
			wantR = net.JoinHostPort(sc.H.Src, fmt.Sprint(sc.H.SPort))
			wantL = net.JoinHostPort(sc.H.Dst, fmt.Sprint(sc.H.DPort))
		}
		if !sameAddr(r.remote, wantR) || !sameAddr(r.local, wantL) {
			x.Fail("addresses-not-honoured:"+class, "handler sees remote=%s local=%s, the header declares %s -> %s; %s", r.remote, r.local, wantR, wantL, desc())
		}
		if sc.H.Declares() && r.id != "declared-source-route" {
			x.Fail("later-matcher-sees-socket-address:"+class, "a remote_ip matcher for the declared source %s did not match after the header was accepted; %s", sc.H.Src, desc())
		}
		ph := strings.SplitN(r.placeholder, "|", 2)
		if len(ph) == 2 && (!sameAddr(ph[0], wantR) || !sameAddr(ph[1], wantL)) {
			x.Fail("placeholders-not-honoured", "placeholders {l4.conn.remote_addr}|{l4.conn.local_addr} = %s, the header declares %s|%s; %s", r.placeholder, wantR, wantL, desc())
		}
	} else {
		if string(r.data) != string(stream) {
			x.Fail("untrusted-peer-stream-touched:"+class, "peer %s is outside the allow list, yet the handler read %d bytes instead of the untouched %d-byte stream (first difference at %d); %s", sc.Peer, len(r.data), len(stream), firstDiff(r.data, stream), desc())
		}
		if !sameAddr(r.remote, sockRemote) || !sameAddr(r.local, sockLocal) {
			x.Fail("untrusted-peer-addresses-changed:"+class, "peer %s is outside the allow list, yet the handler sees remote=%s local=%s; %s", sc.Peer, r.remote, r.local, desc())
		}
	}
	x.Observe(r.id, r.remote, len(r.data))
}

func sameAddr(a, b string) bool {
	ha, pa, e1 := net.SplitHostPort(a)
	hb, pb, e2 := net.SplitHostPort(b)
	if e1 != nil || e2 != nil {
		return a == b
	}
	return pa == pb && net.ParseIP(ha) != nil && net.ParseIP(ha).Equal(net.ParseIP(hb))
}

func firstDiff(a, b []byte) int {
	n := min(len(a), len(b))
	for i := 0; i < n; i++ {
		if a[i] != b[i] {
			return i
		}
	}
	return n
}

func scenarios(tier string, yield func(any) bool) {
	v4 := []string{"0.0.0.0", "127.0.0.1", "255.255.255.255", "198.51.100.7"}
	v6 := []string{"::", "::1", "ffff:ffff:ffff:ffff:ffff:ffff:ffff:ffff", "2001:db8::7"}
	ports := []int{0, 1, 65535, 443}
	var hdrs []Hdr
	for i, a := range v4 {
		hdrs = append(hdrs, Hdr{V: 1, Cmd: "PROXY", Fam: "TCP4", Src: a, Dst: v4[(i+1)%4], SPort: ports[i], DPort: ports[(i+2)%4], TLV: -1})
		for _, fam := range []string{"TCP4", "UDP4"} {
			for _, tlv := range []int{-1, 0, 1, 255} {
				if tlv > 0 && i > 0 {
					continue
				}
				hdrs = append(hdrs, Hdr{V: 2, Cmd: "PROXY", Fam: fam, Src: a, Dst: v4[(i+1)%4], SPort: ports[i], DPort: ports[(i+2)%4], TLV: tlv})
			}
		}
	}
	for i, a := range v6 {
		hdrs = append(hdrs, Hdr{V: 1, Cmd: "PROXY", Fam: "TCP6", Src: a, Dst: v6[(i+1)%4], SPort: ports[i], DPort: ports[(i+2)%4], TLV: -1})
		for _, fam := range []string{"TCP6", "UDP6"} {
			hdrs = append(hdrs, Hdr{V: 2, Cmd: "PROXY", Fam: fam, Src: a, Dst: v6[(i+1)%4], SPort: ports[i], DPort: ports[(i+2)%4], TLV: -1 + 2*(i%2)})
		}
	}
	hdrs = append(hdrs, Hdr{V: 1, Fam: "UNKNOWN", TLV: -1}, Hdr{V: 2, Cmd: "LOCAL", Fam: "UNSPEC", TLV: -1}, Hdr{V: 2, Cmd: "LOCAL", Fam: "UNSPEC", TLV: 5},
		Hdr{V: 2, Cmd: "PROXY", Fam: "UNSPEC", TLV: 0}, Hdr{V: 2, Cmd: "LOCAL", Fam: "TCP4", Src: "10.1.1.1", Dst: "10.2.2.2", SPort: 7, DPort: 8, TLV: -1})
	allows := [][]string{nil, {"192.0.2.0/24"}, {"10.0.0.0/8"}, {"192.0.2.0/24", "192.0.2.7/32"}, {"2001:db8::/32"},
		// nested subnets that share their network address: the peer is only inside the wider one
		{"192.0.0.0/24", "192.0.0.0/16"}, {"192.0.0.0/16", "192.0.0.0/24"}, {"2001:db8::/126", "2001:db8::/32"}, {"10.0.0.0/8", "10.0.0.0/12"},
		// the same subnet twice; equal prefix lengths in both address families
		{"192.0.2.0/24", "192.0.2.0/24"}, {"10.0.0.0/8", "10.0.0.0/8"}, {"192.0.0.0/8", "2000::/8"}, {"2000::/8", "192.0.0.0/8"}}
	nested := func(al []string) bool { return len(al) == 2 && al[1] != "192.0.2.7/32" }
	peers := []string{"192.0.2.7:50000", "[2001:db8::9]:50000"}
	for _, h := range hdrs {
		hl := len(h.Encode())
		pays := []int{0, 1, 5, 2047 - hl, 2048 - hl, 2049 - hl, 4095 - hl, 4096 - hl, 4097 - hl, 6000}
		for _, al := range allows {
			for _, peer := range peers {
				if strings.Contains(peer, "[") != (len(al) > 0 && strings.Contains(al[0], ":")) && len(al) > 0 && tier != "thorough" {
					continue
				}
				for _, pl := range pays {
					if nested(al) && pl != 0 && pl != 5 {
						continue
					}
					for _, need := range []int{0, 5000} {
						if need > 0 && (pl < 5000 || len(al) > 1) {
							continue
						}
						if pl < 0 {
							continue
						}
						if !yield(&Scn{H: h, Payload: pl, Allow: al, Peer: peer, Need: need}) {
							return
						}
					}
					// the allow list written as a Caddyfile block, one line per range
					if pl == 5 && len(al) >= 1 {
						if !yield(&Scn{H: h, Payload: pl, Allow: al, Peer: peer, Timeout: 500, Form: "caddyfile"}) {
							return
						}
					}
					// other kinds of socket peer
					if pl == 5 && len(al) <= 1 && !strings.Contains(peer, "[") {
						for _, pn := range []string{"udp", "unix"} {
							// (behind a unix-socket peer no remote_ip matcher follows: it refuses
							// addresses that are not IP addresses, which is not this property's business)
							if !yield(&Scn{H: h, Payload: pl, Allow: al, Peer: peer, PeerNet: pn, Direct: pn == "unix"}) {
								return
							}
						}
					}
					// with a header timeout configured, followed by a subroute or directly by the
					// consuming handler
					if pl == 5 && len(al) <= 1 {
						for _, direct := range []bool{false, true} {
							if !yield(&Scn{H: h, Payload: pl, Allow: al, Peer: peer, Timeout: 500, Direct: direct}) {
								return
							}
						}
					}
				}
			}
		}
	}
}

var thoroughTier bool

func dupOrMixed(al []string) bool {
	return len(al) == 2 && (al[0] == al[1] || strings.Contains(al[0], ":") != strings.Contains(al[1], ":"))
}

func bounds(tier string, sc *Scn) explore.Bounds {
	thoroughTier = tier == "thorough"
	b := explore.DefaultBounds(1)
	hl := len(sc.H.Encode())
	switch {
	case tier != "thorough" && (sc.PeerNet != "" || sc.Timeout > 0 || sc.Form != "" || dupOrMixed(sc.Allow)):
		// dimensions that do not interact with segmentation: two read deviations
		b[explore.KRead] = 2
	case hl+sc.Payload <= 40:
		b[explore.KRead] = explore.Unbounded
		if hl+sc.Payload > 22 {
			b[explore.KRead] = 3
		}
	case tier == "thorough":
		b[explore.KRead] = 3
	default:
		b[explore.KRead] = 2
	}
	return b
}

func main() {
	runner.Main(&runner.Harness{
		ID:          "C12",
		Level:       "model_checking",
		Rule:        "PROXY headers from an independent encoder (v1 TCP4/TCP6/UNKNOWN; v2 PROXY/LOCAL x TCP4/UDP4/TCP6/UDP6/UNSPEC, TLV blocks of 0/1/255 bytes; boundary addresses and ports) x payloads {0,1,5, chunk-hdr+-1, 4096-hdr+-1, 6000 bytes} x allow lists {none, contains peer, excludes peer, overlapping prefixes, nested subnets sharing their network address in both orders, IPv6} x IPv4/IPv6 peer x optional matcher forcing >4096 prefetched bytes; every split point for streams <=22 bytes, read deviations <=3 up to 40 bytes and <=2 (3 thorough) from a boundary menu beyond; real matcher + handler in a real route list followed by a remote_ip matcher for the declared source; with a 500 ms header timeout, followed by a subroute or directly by the consuming handler, which must start with no read deadline armed on the transport",
		Assumptions: []string{"the send side (proxy handler writing a header to upstreams) and the sender->receiver composition are checked by the second part of this check"},
		Scenarios:   scenarios,
		Run: func(tier string, scAny any, rep *runner.Report) {
			sc := scAny.(*Scn)
			b := build(sc)
			defer b.cancel()
			ex := explore.New(bounds(tier, sc))
			ex.Stop = rep.Expired
			var seq runner.Seq // the executions share the provisioned routes: history-aware replay
			seq.Explore(ex, sc, rep, func(x *explore.Exec) { execute(x, sc, b) })
			rep.States += ex.Stats.Executions
			if sc.H.Declares() {
				rep.Nontrivial += ex.Stats.Executions
			}
		},
		DecodeScenario: func(raw json.RawMessage) (any, error) {
			sc := &Scn{}
			return sc, json.Unmarshal(raw, sc)
		},
		Replay: func(scAny any, choices []int) []explore.Failure {
			sc := scAny.(*Scn)
			b := build(sc)
			defer b.cancel()
			ex := explore.New(bounds("thorough", sc))
			return ex.RunOnce(choices, func(x *explore.Exec) { execute(x, sc, b) }).Failures
		},
		ReplayH: func(hist []runner.HistItem, scAny any, choices []int) []explore.Failure {
			sc := scAny.(*Scn)
			b := build(sc)
			defer b.cancel()
			ex := explore.New(bounds("thorough", sc))
			for _, it := range hist {
				ex.RunOnce(it.Choices, func(x *explore.Exec) { execute(x, sc, b) })
			}
			return ex.RunOnce(choices, func(x *explore.Exec) { execute(x, sc, b) }).Failures
		},
		Budget: func(tier string) time.Duration {
			if tier == "thorough" {
				return 25 * time.Minute
			}
			return 120 * time.Second
		},
	})
}
