//go:build verif

// C06, route level: "a message that matches when delivered whole is never rejected when
// delivered in fragments" as the router acts on it.  Route lists are built from the REAL
// stream matchers (one route per matcher, each with a terminal recorder), optionally behind
// a non-terminal route that strips a PROXY header with the shipped proxy_protocol handler.
// Every corpus message of the matchers in the list is delivered whole and then at EVERY
// split point in two segments; the outcome (which recorder ran, what it read, fallback,
// error) must be the same.  The oracle is differential: no expected value is written down.
package main

import (
	"context"
	"encoding/hex"
	"encoding/json"
	"fmt"
	"strings"
	"time"

	"github.com/caddyserver/caddy/v2"

	"github.com/mholt/caddy-l4/layer4"
	_ "github.com/mholt/caddy-l4/modules/l4proxyprotocol"

	"verif/mc/explore"
	"verif/mc/hm"
	"verif/mc/mrun"
	"verif/mc/runner"
)

const ppHeader = "PROXY TCP4 198.51.100.1 203.0.113.2 1111 2222\r\n"

type Scn struct {
	Specs  []mrun.Spec `json:"matchers"` // one route each, in this order
	PP     bool        `json:"pp"`       // a proxy_protocol route (matcher + handler) in front
	Or     bool        `json:"or"`       // the matchers are the OR'ed matcher sets of ONE route
	Stream string      `json:"stream,omitempty"`
	Split  int         `json:"split,omitempty"`
}

func streamOriented(sp mrun.Spec) bool {
	if sp.UDP {
		return false
	}
	switch sp.Module {
	case "wireguard", "quic", "proxy_protocol":
		return false
	}
	return true
}

type built struct {
	rl     layer4.RouteList
	cancel context.CancelFunc
}

func build(sc *Scn) (*built, error) {
	var routes []map[string]any
	if sc.PP {
		routes = append(routes, map[string]any{"match": []map[string]any{{"proxy_protocol": map[string]any{}}}, "handle": []map[string]any{{"handler": "proxy_protocol"}}})
	}
	var orSets []map[string]any
	for i, sp := range sc.Specs {
		var cfg any = map[string]any{}
		if len(sp.Config) > 0 {
			json.Unmarshal(sp.Config, &cfg)
		}
		if sc.Or {
			orSets = append(orSets, map[string]any{sp.Module: cfg})
			continue
		}
		routes = append(routes, map[string]any{"match": []map[string]any{{sp.Module: cfg}},
			"handle": []map[string]any{{"handler": "h_rec", "id": fmt.Sprintf("r%d", i), "buf": 96}}})
	}
	if sc.Or {
		routes = append(routes, map[string]any{"match": orSets, "handle": []map[string]any{{"handler": "h_rec", "id": "r-or", "buf": 96}}})
	}
	var rl layer4.RouteList
	if err := json.Unmarshal(hm.J(routes), &rl); err != nil {
		return nil, err
	}
	ctx, cancel := caddy.NewContext(caddy.Context{Context: context.Background()})
	if err := rl.Provision(ctx); err != nil {
		cancel()
		return nil, err
	}
	return &built{rl, cancel}, nil
}

// deliver runs one connection: the stream arrives in two segments (split==0: whole).
func deliver(b *built, stream []byte, split int) string {
	ex := explore.New(explore.DefaultBounds(0))
	var out string
	ex.RunOnce(nil, func(x *explore.Exec) {
		conn := hm.NewSConn(x, stream, true)
		first := true
		conn.Menu = func(max int) []int {
			if first && split > 0 && split < max {
				first = false
				return []int{split}
			}
			first = false
			return []int{max}
		}
		tr := &hm.Trace{}
		fallback := false
		h := b.rl.Compile(mrun.Nop, time.Second, layer4.HandlerFunc(func(*layer4.Connection) error { fallback = true; return nil }))
		cx := layer4.WrapConnection(conn, make([]byte, 0, 2048), mrun.Nop)
		hm.Attach(cx, tr)
		var sb strings.Builder
		func() {
			defer func() {
				if r := recover(); r != nil {
					fmt.Fprintf(&sb, "panic(%v) ", r)
				}
			}()
			if err := h.Handle(cx); err != nil {
				sb.WriteString("error ")
			}
		}()
		for _, e := range tr.Snapshot() {
			if e.Kind == "done" {
				fmt.Fprintf(&sb, "%s read %x (%s) ", e.ID, e.Data, e.Err)
			}
		}
		if fallback {
			sb.WriteString("fallback ")
		}
		out = sb.String()
	})
	return out
}

// bigSeeds: first messages between three prefetch chunks and the matching limit, for the
// protocols whose first message can legally be that large.
func bigSeeds(sp mrun.Spec) [][]byte {
	var out [][]byte
	for _, total := range []int{3*2048 + 1, 7500, layer4.MaxMatchingBytes} {
		switch sp.Module {
		case "http":
			head := "GET /big HTTP/1.1\r\nHost: example.com\r\nX-Pad: "
			tail := "\r\n\r\n"
			if n := total - len(head) - len(tail); n > 0 {
				out = append(out, []byte(head+strings.Repeat("p", n)+tail))
			}
		case "postgres":
			// length, protocol 3.0, "user" 0 <filler> 0 0
			n := total - 4 - 4 - 5 - 2
			if n > 0 {
				m := []byte{byte(total >> 24), byte(total >> 16), byte(total >> 8), byte(total), 0, 3, 0, 0}
				m = append(m, "user\x00"...)
				m = append(m, strings.Repeat("u", n)...)
				m = append(m, 0, 0)
				out = append(out, m)
			}
		}
	}
	return out
}

// splitPoints: every split for ordinary messages; for the big ones the chunk boundaries, their
// neighbours and a stride (the buffer grows in chunks from the first segment's length on).
func splitPoints(n int) []int {
	if n <= 600 {
		out := make([]int, 0, n)
		for i := 1; i < n; i++ {
			out = append(out, i)
		}
		return out
	}
	set := map[int]bool{}
	for _, b := range []int{0, 2048, 4096, 6144, 8192, n} {
		for d := -3; d <= 3; d++ {
			if i := b + d; i >= 1 && i < n {
				set[i] = true
			}
		}
	}
	for i := 1; i < n; i += 97 {
		set[i] = true
	}
	var out []int
	for i := 1; i < n; i++ {
		if set[i] {
			out = append(out, i)
		}
	}
	return out
}

func seedsOf(sc *Scn) [][]byte {
	seen := map[string]bool{}
	var out [][]byte
	defer func() {}()
	for _, sp := range sc.Specs {
		if len(sp.Config) == 0 || string(sp.Config) == "{}" || string(sp.Config) == "null" {
			out = append(out, bigSeeds(sp)...)
		}
	}
	for _, sp := range sc.Specs {
		k := 0
		for _, s := range mrun.Seeds(sp) {
			if len(s) == 0 || len(s) > 400 || seen[string(s)] {
				continue
			}
			seen[string(s)] = true
			out = append(out, s)
			if k++; k >= 6 {
				break
			}
		}
	}
	return out
}

// yesSomewhere: does the matcher say yes on some prefix of s?  (Evaluated on the matcher
// alone, outside any route list.)
var loadedCache = map[string]*mrun.Loaded{}

func yesSomewhere(sp mrun.Spec, s []byte) bool { return saysSomewhere(sp, s, "yes") }

// saysSomewhere: the matcher gives verdict v on some prefix of s.
func saysSomewhere(sp mrun.Spec, s []byte, v string) bool {
	key := sp.String()
	l := loadedCache[key]
	if l == nil {
		var err error
		if l, err = mrun.Load(sp); err != nil {
			return true // be conservative: treat as overlapping
		}
		loadedCache[key] = l
	}
	for i := 1; i <= len(s); i++ {
		cx, _ := mrun.Conn(s[:i], false)
		if l.Eval(cx).V == v {
			return true
		}
	}
	return false
}

// unambiguous: at most one matcher of the list can ever say yes on this stream (and on what
// is left of it behind the PROXY header).  With overlapping matchers the router may, by
// design, run a later route that is already decided while an earlier one still needs data,
// so the outcome legitimately depends on the segmentation; those streams are not judged.
// The same holds when one matcher fails with an error on some prefix (which ends matching,
// fail closed) while another can say yes: whether the error or the yes comes first depends on
// how much of the stream has arrived.
func unambiguous(sc *Scn, stream, seed []byte) bool {
	n, e := 0, 0
	for _, sp := range sc.Specs {
		if sc.PP && yesSomewhere(sp, stream) {
			return false // overlaps with the proxy_protocol matcher of the first route
		}
		if yesSomewhere(sp, seed) || (sc.PP && yesSomewhere(sp, stream)) {
			n++
		}
		if saysSomewhere(sp, seed, "err") || (sc.PP && saysSomewhere(sp, stream, "err")) {
			e++
		}
	}
	return n <= 1 && (e == 0 || n == 0)
}

func run(tier string, scAny any, rep *runner.Report) {
	sc := scAny.(*Scn)
	b, err := build(sc)
	if err != nil {
		rep.Incident("ROUTES-DO-NOT-PROVISION")
		rep.Note(fmt.Sprintf("%s: %v", hm.J(sc), err))
		return
	}
	defer b.cancel()
	rep.Scenarios++
	var seq runner.Seq
	for _, seed := range seedsOf(sc) {
		stream := seed
		if sc.PP {
			stream = append([]byte(ppHeader), seed...)
		}
		if !unambiguous(sc, stream, seed) {
			rep.Count("streams_skipped_overlapping_matchers", 1)
			continue
		}
		whole := deliver(b, stream, 0)
		rep.Executions++
		w := *sc
		w.Stream = hex.EncodeToString(stream)
		seq.Done(&w, nil)
		if strings.Contains(whole, " read ") {
			rep.Nontrivial++
		}
		for _, i := range splitPoints(len(stream)) {
			got := deliver(b, stream, i)
			rep.Executions++
			rep.Transitions += 2
			rep.States++
			one := w
			one.Split = i
			if got != whole {
				sig := "routing-differs-when-fragmented"
				if strings.Contains(got, "panic(") {
					sig = "panic-when-fragmented"
				}
				seq.FailAfter(rep, &one, sig, fmt.Sprintf("routes %s: the stream %x delivered whole ends in [%s], delivered as %d + %d bytes it ends in [%s]", describe(sc), stream, whole, i, len(stream)-i, got), nil)
			}
			seq.Done(&one, nil)
		}
		rep.Outcome(uint64(len(whole))<<20 ^ uint64(len(stream)))
		if rep.Expired() {
			return
		}
	}
}

func describe(sc *Scn) string {
	var parts []string
	if sc.PP {
		parts = append(parts, "proxy_protocol->strip")
	}
	if sc.Or {
		parts = append(parts, "one route, OR of:")
	}
	for _, sp := range sc.Specs {
		parts = append(parts, sp.Module+string(sp.Config))
	}
	return "[" + strings.Join(parts, " | ") + "]"
}

func replayOne(b *built, sc *Scn) []explore.Failure {
	stream, _ := hex.DecodeString(sc.Stream)
	whole := deliver(b, stream, 0)
	if sc.Split == 0 {
		return nil
	}
	got := deliver(b, stream, sc.Split)
	if got != whole {
		sig := "routing-differs-when-fragmented"
		if strings.Contains(got, "panic(") {
			sig = "panic-when-fragmented"
		}
		return []explore.Failure{{Sig: sig, Msg: fmt.Sprintf("whole [%s] split at %d [%s]", whole, sc.Split, got)}}
	}
	return nil
}

func main() {
	runner.Main(&runner.Harness{
		ID:    "C06",
		Level: "model_checking",
		Rule:  "route lists of the real stream matchers (one default configuration per protocol: every ordered pair; every filtered configuration paired with every other protocol's default), each route with a terminal recorder (also: both matchers as the OR'ed sets of one route), alone and behind a proxy_protocol route whose shipped handler strips a PROXY v1 header; up to 6 corpus messages per matcher, plus first messages of 6145 / 7500 / 8192 bytes for http and postgres; each stream delivered whole and at EVERY two-segment split point (big messages: chunk boundaries +-3 and every 97th byte) through the real RouteList.Compile / prefetch; oracle: the outcome (recorder, bytes read, fallback, error) is the same as for whole delivery; states = distinct (route list, stream, split) triples",
		Assumptions: []string{
			"differential oracle: what the right outcome is for whole delivery is not judged here (C02, C14)",
			"two segments per stream; all segmentations of abstract matchers are C02's",
			"streams on which two matchers of the list can say yes (on any prefix) are skipped: the router may run a later, already decided route while an earlier one still needs data, so their outcome legitimately depends on the segmentation",
		},
		Scenarios: func(tier string, yield func(any) bool) {
			var defaults, all []mrun.Spec
			seenMod := map[string]bool{}
			for _, sp := range mrun.Specs() {
				if !streamOriented(sp) {
					continue
				}
				all = append(all, sp)
				if !seenMod[sp.Module] {
					seenMod[sp.Module] = true
					defaults = append(defaults, sp)
				}
			}
			for _, pp := range []bool{false, true} {
				for _, a := range all {
					for _, b := range defaults {
						if a.Module == b.Module {
							continue
						}
						if !yield(&Scn{Specs: []mrun.Spec{a, b}, PP: pp}) {
							return
						}
						if !pp && string(a.Config) == string(defaultOf(defaults, a.Module).Config) {
							// ... and as the two OR'ed matcher sets of one route
							if !yield(&Scn{Specs: []mrun.Spec{a, b}, Or: true}) {
								return
							}
						}
						if string(a.Config) != string(defaultOf(defaults, a.Module).Config) {
							if !yield(&Scn{Specs: []mrun.Spec{b, a}, PP: pp}) {
								return
							}
						}
					}
				}
			}
		},
		Run: run,
		DecodeScenario: func(raw json.RawMessage) (any, error) {
			sc := &Scn{}
			return sc, json.Unmarshal(raw, sc)
		},
		Replay: func(scAny any, _ []int) []explore.Failure {
			sc := scAny.(*Scn)
			b, err := build(sc)
			if err != nil {
				return nil
			}
			defer b.cancel()
			return replayOne(b, sc)
		},
		ReplayH: func(hist []runner.HistItem, scAny any, _ []int) []explore.Failure {
			sc := scAny.(*Scn)
			b, err := build(sc)
			if err != nil {
				return nil
			}
			defer b.cancel()
			for _, it := range hist {
				hs := &Scn{}
				if json.Unmarshal(it.Scenario, hs) == nil {
					replayOne(b, hs)
				}
			}
			return replayOne(b, sc)
		},
		Budget: func(tier string) time.Duration {
			if tier == "thorough" {
				return 20 * time.Minute
			}
			return 100 * time.Second
		},
	})
}

func defaultOf(defaults []mrun.Spec, module string) mrun.Spec {
	for _, d := range defaults {
		if d.Module == module {
			return d
		}
	}
	return mrun.Spec{}
}
