//go:build verif

// C09: UDP datagrams are demultiplexed per client, in order; the loop never crashes.
// The real (rewritten) Server.servePacket / packetConn code runs under the controlled
// scheduler over a virtual UDP socket; all interleavings within the preemption bound,
// select alternatives and timer orderings are explored.
package main

import (
	"context"
	"encoding/json"
	"errors"
	"fmt"
	"io"
	"os"
	"strings"
	"sync"
	"time"

	"github.com/caddyserver/caddy/v2"
	"go.uber.org/zap"

	"github.com/mholt/caddy-l4/layer4"

	"verif/mc/explore"
	"verif/mc/hm"
	"verif/mc/runner"
	"verif/mc/vnet"
	"verif/mc/vsched"
	"verif/mc/vtime"
)

// ---- harness handler ---------------------------------------------------------------------

type event struct {
	Kind  string // start | deliver | end | handler-return
	Assoc int
	Data  string
	Addr  string
	Err   string
	At    int64 // virtual time
}

type hstate struct {
	mu     sync.Mutex
	events []event
	nassoc int
	mode   string
	k      int
}

var H *hstate

func (h *hstate) add(e event) {
	e.At = vsched.NowNS()
	h.mu.Lock()
	h.events = append(h.events, e)
	h.mu.Unlock()
}

type UDPHandler struct{}

func (*UDPHandler) CaddyModule() caddy.ModuleInfo {
	return caddy.ModuleInfo{ID: "layer4.handlers.h_udp", New: func() caddy.Module { return new(UDPHandler) }}
}

func (*UDPHandler) Handle(cx *layer4.Connection, _ layer4.Handler) error {
	h := H
	h.mu.Lock()
	h.nassoc++
	id := h.nassoc
	mode, k := h.mode, h.k
	h.mu.Unlock()
	h.add(event{Kind: "start", Assoc: id, Addr: cx.RemoteAddr().String()})
	defer h.add(event{Kind: "handler-return", Assoc: id})
	// datagrams are 2 bytes: echo reads into a roomy buffer, readk into one that fits a
	// datagram exactly, small into one that takes two reads per datagram
	bufSize := 64
	switch mode {
	case "readk":
		bufSize = 2
	case "small", "part":
		bufSize = 1
	case "wide":
		bufSize = 16384 // takes the largest datagram the server accepts in one read
	}
	buf := make([]byte, bufSize)
	got := 0
	for {
		if mode == "never" || (mode == "readk" && got >= k) || (mode == "part" && got >= 1) {
			// (part: returns with the rest of its first datagram unread, so that the connection is
			// closed - by the handler's return and by the deferred close - holding a partly
			// consumed packet)
			if mode == "part" {
				cx.Close()
			}
			return nil
		}
		n, err := cx.Read(buf)
		if n > 0 {
			h.add(event{Kind: "deliver", Assoc: id, Data: string(buf[:n])})
			got++
			if mode == "echo" {
				cx.Write([]byte(fmt.Sprintf("%d:%s", id, buf[:n])))
			}
		}
		if err != nil {
			h.add(event{Kind: "end", Assoc: id, Err: err.Error()})
			return nil
		}
	}
}

func init() { caddy.RegisterModule(&UDPHandler{}) }

// ---- scenario -----------------------------------------------------------------------------

// Script letters: A,B,C = a datagram from that client; q = wait until the system is
// quiescent (1 ms of virtual time); I = let 31 s pass (idle expiry); F = the socket fails.
type Scn struct {
	Mode   string `json:"mode"` // echo | readk | small | never
	K      int    `json:"k,omitempty"`
	Script string `json:"script"`
}

// udpBufSize is the size of the buffers the UDP read loop receives into (layer4/server.go:
// "our buffer sizes are 9000 bytes"); a datagram of exactly this size is the largest accepted.
const udpBufSize = 9000

var clients = map[byte]string{'A': "192.0.2.1:1000", 'B': "192.0.2.2:2000", 'C': "[2001:db8::3]:3000"}

var nop = zap.NewNop()

type result struct {
	out      vsched.Outcome
	events   []event
	sent     []vnet.Datagram
	arrivals []string // datagram payloads in arrival order
	serveErr error
	served   bool
}

func execute(x *explore.Exec, sc *Scn) *result {
	res := &result{}
	H = &hstate{mode: sc.Mode, k: sc.K}
	layer4.VerifResetPools()
	var trace func(string)
	if os.Getenv("VERIF_TRACE") != "" {
		trace = func(l string) { fmt.Println("  |", l) }
	}
	res.out = vsched.Run(x, vsched.Options{Horizon: 4000, Trace: trace}, func() {
		ctx, cancel := caddy.NewContext(caddy.Context{Context: context.Background()})
		defer cancel()
		srv := &layer4.Server{}
		if err := json.Unmarshal([]byte(`{"routes":[{"handle":[{"handler":"h_udp"}]}]}`), srv); err != nil {
			panic(err)
		}
		if err := srv.Provision(ctx, nop); err != nil {
			panic(err)
		}
		pc := vnet.NewPacketConn(vnet.UDP("10.0.0.1", 53))
		vsched.GoNamed("serve", func() {
			res.serveErr = layer4.VerifServePacket(srv, pc)
			res.served = true
		})
		seq := map[byte]int{}
		for i := 0; i < len(sc.Script); i++ {
			switch c := sc.Script[i]; c {
			case 'q':
				vtime.Sleep(time.Millisecond)
				H.add(event{Kind: "quiet"})
			case 'I':
				vtime.Sleep(31 * time.Second)
				H.add(event{Kind: "quiet"})
			case 'c':
				// wait until every handler that was started has returned and its connection's
				// Close has completed (the handler threads have finished) - but not for the loop
				// to take their close notifications: what is sent next is "a later datagram"
				vsched.Yield("await-closed", func() bool {
					n := 0
					for _, t := range vsched.Threads() {
						f := strings.SplitN(t, ":", 3)
						if f[0] == "main" || f[0] == "serve" {
							continue
						}
						if f[1] != "done" && f[2] != "readfrom" {
							return false
						}
						if f[1] == "done" {
							n++
						}
					}
					return n > 0
				})
				H.add(event{Kind: "quiet"})
			case 'F':
				vsched.Point("fail")
				H.add(event{Kind: "socket-fail"})
				pc.Fail(errors.New("socket failed"))
			case 'L': // client A sends a datagram exactly as large as the server's receive buffer
				d := fmt.Sprintf("A%c", "0123456789abcdefghijklmnopqrstuvwxyz"[seq['A']]) + strings.Repeat("L", udpBufSize-2)
				seq['A']++
				res.arrivals = append(res.arrivals, d)
				vsched.Point("inject large")
				H.add(event{Kind: "arrive", Data: d})
				pc.Inject(vnet.Datagram{Data: []byte(d), Addr: hm.MustUDPAddr(clients['A'])})
			default:
				d := fmt.Sprintf("%c%c", c, "0123456789abcdefghijklmnopqrstuvwxyz"[seq[c]]) // always 2 bytes
				seq[c]++
				res.arrivals = append(res.arrivals, d)
				a := hm.MustUDPAddr(clients[c])
				vsched.Point("inject " + d)
				H.add(event{Kind: "arrive", Data: d})
				pc.Inject(vnet.Datagram{Data: []byte(d), Addr: a})
			}
		}
		// let everything drain: handlers' idle timers expire after 30 s of silence
		vtime.Sleep(95 * time.Second)
		H.add(event{Kind: "socket-fail"})
		pc.Fail(io.ErrClosedPipe)
		vtime.Sleep(95 * time.Second)
		res.sent = append(res.sent, pc.Sent...)
	})
	res.events = H.events
	return res
}

func check(x *explore.Exec, sc *Scn, r *result) {
	desc := func() string {
		var sb strings.Builder
		for _, e := range r.events {
			d := e.Data
			if len(d) > 24 {
				d = fmt.Sprintf("%s...(%d bytes)", d[:8], len(d))
			}
			fmt.Fprintf(&sb, "%s(a%d %s%s%s) ", e.Kind, e.Assoc, d, e.Addr, e.Err)
		}
		return fmt.Sprintf("mode=%s k=%d script=%q events: %s| blocked=%v", sc.Mode, sc.K, sc.Script, sb.String(), r.out.Blocked)
	}
	for _, p := range r.out.Panics {
		site := p
		if i := strings.LastIndex(p, " at "); i >= 0 {
			site = p[i+4:]
		}
		msg := p
		if i := strings.Index(p, " at "); i >= 0 {
			msg = p[:i]
		}
		x.Fail("panic:"+site+":"+msg, "a model thread panicked (production has no recover: the whole server dies): %s; %s", p, desc())
	}
	if r.out.Horizon {
		x.Fail("horizon", "execution did not finish within the step horizon (livelock?); %s", desc())
	}
	client := map[int]string{}
	ended := map[int]bool{}
	delivered := map[int][]string{}
	deliveredTo := map[string]int{}
	socketFailed := false
	firstDeliverIdx := map[int]int{}
	endIdx := map[int]int{}
	for i, e := range r.events {
		switch e.Kind {
		case "start":
			client[e.Assoc] = e.Addr
		case "deliver":
			if ended[e.Assoc] {
				x.Fail("deliver-after-end", "association a%d received %q after it had ended; %s", e.Assoc, e.Data, desc())
			}
			if sc.Mode == "part" {
				// the one byte read is the first byte of a datagram of this client
				if want := clients[e.Data[0]]; want != client[e.Assoc] {
					x.Fail("cross-talk", "association a%d of client %s read %q, the beginning of another client's datagram; %s", e.Assoc, client[e.Assoc], e.Data, desc())
				}
			} else if sc.Mode != "small" {
				if want := clients[e.Data[0]]; want != client[e.Assoc] {
					x.Fail("cross-talk", "datagram %q of client %s was delivered to association a%d of client %s; %s", e.Data, want, e.Assoc, client[e.Assoc], desc())
				}
				if prev, dup := deliveredTo[e.Data]; dup {
					x.Fail("duplicate-delivery", "datagram %q delivered twice (a%d and a%d); %s", e.Data, prev, e.Assoc, desc())
				}
				deliveredTo[e.Data] = e.Assoc
				delivered[e.Assoc] = append(delivered[e.Assoc], e.Data)
			} else {
				delivered[e.Assoc] = append(delivered[e.Assoc], e.Data)
			}
			if _, ok := firstDeliverIdx[e.Assoc]; !ok {
				firstDeliverIdx[e.Assoc] = i
			}
		case "socket-fail":
			socketFailed = true
		case "end", "handler-return":
			if e.Kind == "end" && e.Err == "EOF" && !socketFailed && x.Used(explore.KTime) == 0 {
				// (timing clause: only on executions in which no thread was held back across
				// virtual time - a handler delayed for 30 s finds its idle timer expired)
				// a live association only sees end-of-stream after 30 s without a datagram
				// (if the expiry raced with a datagram that arrived after 30 s of silence, the
				// association may still take that datagram and end after it: any 30 s gap in the
				// association's history justifies the end)
				last, gap := int64(-1), false
				idle := int64(30 * time.Second)
				for _, p := range r.events[:i] {
					if p.Assoc == e.Assoc && (p.Kind == "start" || p.Kind == "deliver") {
						gap = gap || (last >= 0 && p.At-last >= idle)
						last = p.At
					}
				}
				if last >= 0 && e.At-last < idle && !gap {
					x.Fail("premature-end-of-stream", "association a%d read end-of-stream %.3fs after its last datagram although the socket is fine and the idle timeout is 30 s; %s", e.Assoc, float64(e.At-last)/1e9, desc())
				}
			}
			if !ended[e.Assoc] {
				endIdx[e.Assoc] = i
			}
			ended[e.Assoc] = true
		}
	}
	// per association: a contiguous, in-order run of its client's arrivals
	perClient := map[string][]string{}
	for _, d := range r.arrivals {
		perClient[clients[d[0]]] = append(perClient[clients[d[0]]], d)
	}
	for a, ds := range delivered {
		all := perClient[client[a]]
		if sc.Mode == "part" {
			continue
		}
		if sc.Mode == "small" {
			// chunks of 2 bytes: concatenation must be a contiguous run of the arrivals
			joined := strings.Join(ds, "")
			if !strings.Contains(strings.Join(all, ""), joined) {
				x.Fail("order", "association a%d read %q, not a contiguous run of its client's datagrams %v; %s", a, joined, all, desc())
			}
			continue
		}
		start := -1
		for i, d := range all {
			if d == ds[0] {
				start = i
			}
		}
		ok := start >= 0 && start+len(ds) <= len(all)
		for i := 0; ok && i < len(ds); i++ {
			ok = all[start+i] == ds[i]
		}
		if !ok {
			x.Fail("order", "association a%d received %v, not a contiguous in-order run of its client's datagrams %v; %s", a, ds, all, desc())
		}
	}
	// two associations of one client must not overlap: the older one has ended before the
	// newer one receives its first datagram
	for a, ca := range client {
		for b, cb := range client {
			if a < b && ca == cb {
				fb, okb := firstDeliverIdx[b]
				ea, oka := endIdx[a]
				if okb && (!oka || ea > fb) && len(delivered[a]) > 0 {
					// a was still alive when b got data; did a get data after b started?
					for i, e := range r.events {
						if e.Kind == "deliver" && e.Assoc == a && i > fb {
							x.Fail("two-live-associations", "associations a%d and a%d of client %s both received datagrams while neither had ended; %s", a, b, ca, desc())
						}
					}
				}
			}
		}
	}
	// replies go to the association's own client only
	for _, s := range r.sent {
		var id int
		var payload string
		fmt.Sscanf(string(s.Data), "%d:%s", &id, &payload)
		if client[id] != s.Addr.String() {
			x.Fail("reply-to-wrong-client", "association a%d (client %s) replied %q to %s; %s", id, client[id], s.Data, s.Addr, desc())
		}
	}
	// every datagram up to the receive-buffer size reaches its client's connection (wide mode:
	// a handler that reads everything, at most three datagrams, so no queue overflows)
	if sc.Mode == "wide" && len(r.out.Panics) == 0 && !r.out.Horizon && x.Used(explore.KTime) == 0 {
		for _, d := range r.arrivals {
			if _, ok := deliveredTo[d]; !ok {
				x.Fail("datagram-never-delivered", "a %d-byte datagram (%q...) never reached its client's connection although no queue was full; %s", len(d), d[:2], desc())
			}
		}
	}
	// after a client's association has ended and the system has gone quiet, a later
	// datagram from that client must be served by a fresh association (handlers of the
	// echo kind read everything they are given)
	if sc.Mode == "echo" && len(r.out.Panics) == 0 && !r.out.Horizon && x.Used(explore.KTime) == 0 {
		live := map[string]int{} // client -> number of associations started and not ended
		quietSinceEnd := map[string]bool{}
		for _, e := range r.events {
			switch e.Kind {
			case "start":
				live[e.Addr]++
			case "end":
				live[client[e.Assoc]]--
				quietSinceEnd[client[e.Assoc]] = false
			case "quiet":
				for c := range quietSinceEnd {
					quietSinceEnd[c] = true
				}
			case "arrive":
				c := clients[e.Data[0]]
				if q, ended := quietSinceEnd[c]; ended && q && live[c] == 0 {
					if _, ok := deliveredTo[e.Data]; !ok && !strings.Contains(sc.Script, "F") {
						x.Fail("late-datagram-not-served", "datagram %q arrived after its client's association had ended and the system had gone quiet, but no fresh association served it; %s", e.Data, desc())
					}
				}
			}
		}
	}
	if !r.served && len(r.out.Panics) == 0 && !r.out.Horizon {
		x.Fail("loop-stuck", "the server loop did not return after the socket failed: it is blocked (%v); %s", r.out.Blocked, desc())
	}
	var sb strings.Builder
	for _, e := range r.events {
		fmt.Fprintf(&sb, "%s%d%s ", e.Kind[:1], e.Assoc, e.Data)
	}
	x.Observe(sb.String(), len(r.sent), r.out.Deadlock)
}

func scenarios(tier string, yield func(any) bool) {
	alpha := "ABqI"
	maxLen := 3
	if tier == "thorough" {
		maxLen = 4
	}
	var scripts []string
	var gen func(prefix string)
	gen = func(prefix string) {
		if len(prefix) > 0 && strings.ContainsAny(prefix, "AB") {
			scripts = append(scripts, prefix)
		}
		if len(prefix) == maxLen {
			return
		}
		for _, c := range alpha {
			if len(prefix) == 0 && (c == 'q' || c == 'I' || c == 'B') {
				continue // symmetric / empty beginnings
			}
			if len(prefix) > 0 && (c == 'q' || c == 'I') && (prefix[len(prefix)-1] == 'q' || prefix[len(prefix)-1] == 'I') {
				continue
			}
			gen(prefix + string(c))
		}
	}
	gen("")
	// bursts beyond the channel capacities (5 per association, 10 in the loop)
	if tier != "thorough" {
		// selected longer histories: re-association after idle expiry and after the handler
		// returned, two clients interleaved
		scripts = append(scripts, "AIAA", "AqAA", "AAqA", "ABAB", "AIqA", "ABIA")
	}
	// bursts beyond the channel capacities (5 per association, 10 in the loop), socket failure
	scripts = append(scripts, "AAAAAAA", "AAAAAABAAAAAA", "AAAAAAAAAAAAqA", "AFA", "ABFqA", "AqFA")
	modes := []Scn{{Mode: "echo"}, {Mode: "readk", K: 1}, {Mode: "readk", K: 2}, {Mode: "small"}, {Mode: "never"}}
	if os.Getenv("VERIF_C09_SUBSET") == "stream" {
		// as the datagram part of C01 (a client's datagrams are its byte stream: intact, once,
		// in order, through the same Connection the stream handlers use): the handlers that
		// read to the end, bursts that queue up before the handler reads, two clients
		modes = []Scn{{Mode: "echo"}, {Mode: "small"}, {Mode: "readk", K: 2}}
		scripts = []string{"A", "AA", "AB", "ABA", "AqA", "AAAAAAA"}
	}
	if os.Getenv("VERIF_C09_SUBSET") == "xtalk" {
		// as the datagram part of C08: two clients whose datagrams are in flight together
		modes = []Scn{{Mode: "echo"}, {Mode: "readk", K: 2}, {Mode: "readk", K: 1}}
		// ... and a client whose association ends and is replaced while its datagrams keep
		// coming: the replacement must not be disturbed by the old one's close notifications
		scripts = []string{"AB", "ABA", "ABAB", "AAB", "AAA", "AAAB"}
	}
	if os.Getenv("VERIF_C09_SUBSET") == "smallchan" {
		// built with every channel of the datagram loop shrunk to capacity 1 (overlay): a burst
		// for one client fills its queue and parks the loop while another client's handler
		// finishes - the capacities are implementation constants, no pattern of arrivals and
		// completions may wedge the loop whatever they are
		modes = []Scn{{Mode: "readk", K: 1}, {Mode: "readk", K: 2}, {Mode: "echo"}}
		scripts = []string{"BAAA", "BAAAqA", "ABBB", "AABBB", "BAAAB", "ABAAqB"}
		if tier != "thorough" {
			modes, scripts = modes[:2], []string{"BAAA", "ABBB", "BAAAqA"}
		}
	}
	if os.Getenv("VERIF_C09_SUBSET") == "" {
		// a datagram sent after its client's handler has returned and closed, while the loop may
		// not yet have taken the close notification
		for _, s := range []string{"AcA", "ABcA", "AcAB", "AAcA"} {
			if !yield(&Scn{Mode: "echo", Script: s}) {
				return
			}
		}
	}
	if os.Getenv("VERIF_C09_SUBSET") == "" {
		// datagrams of every size up to the receive buffer reach the connection: the largest
		for _, s := range []string{"L", "LA", "AL", "ALA"} {
			if !yield(&Scn{Mode: "wide", Script: s}) {
				return
			}
		}
	}
	if sub := os.Getenv("VERIF_C09_SUBSET"); sub != "stream" && sub != "smallchan" {
		// a handler that leaves a datagram partly read and closes, then other clients' datagrams
		// queue up before their handlers run (three clients)
		for _, s := range []string{"AqBC", "AqBCA", "AABC", "AqBqC"} {
			if !yield(&Scn{Mode: "part", Script: s}) {
				return
			}
		}
	}
	for _, s := range scripts {
		for _, m := range modes {
			if only := os.Getenv("VERIF_ONLY"); only != "" && only != s+","+m.Mode {
				continue
			}
			m.Script = s
			mm := m
			if !yield(&mm) {
				return
			}
		}
	}
}

func bounds(tier string) explore.Bounds {
	if os.Getenv("VERIF_C09_SUBSET") == "smallchan" {
		tier = "thorough" // few, short scripts: the full deviation budget in both tiers
	}
	b := explore.DefaultBounds(2)
	b[explore.KSched] = 4
	b[explore.KSelect] = 3 // a select taking a later ready case counts against the joint budget
	if v := os.Getenv("VERIF_B"); v != "" {
		var sb, tb int
		fmt.Sscanf(v, "%d,%d", &sb, &tb)
		b[explore.KSched], b[explore.KTime] = sb, tb
		return b
	}
	if tier == "thorough" {
		b[explore.KSched] = 5
		b[explore.KTime] = 3
	}
	return b
}

func total(tier string) int {
	if os.Getenv("VERIF_C09_SUBSET") == "smallchan" {
		tier = "thorough"
	}
	if v := os.Getenv("VERIF_T"); v != "" {
		var t int
		fmt.Sscanf(v, "%d", &t)
		return t
	}
	if tier == "thorough" {
		return 4
	}
	return 3
}

// deep lists the longer histories that get the full deviation budget in the quick tier.
var deep = map[string]bool{"AIAA": true, "AqAA": true, "AAqA": true, "AIqA": true, "ABIA": true}

// totalFor: the joint deviation budget (preemptions + early timers + pool misses) of a script.
func totalFor(tier, script string) int {
	if os.Getenv("VERIF_C09_SUBSET") == "smallchan" {
		tier = "thorough"
	}
	t := total(tier)
	n := strings.Count(script, "A") + strings.Count(script, "B")
	switch {
	case tier == "thorough" && n <= 2:
		return t // 3
	case tier == "thorough" && n <= 4:
		return t - 1
	case tier == "thorough":
		return t - 2
	case (n <= 2 && !strings.Contains(script, "B")) || script == "AB":
		return t // the full budget
	case deep[script] && tier == "thorough":
		return t
	}
	return t - 1
}

func main() {
	runner.Main(&runner.Harness{
		ID:    "C09",
		Level: "model_checking",
		Rule:  "arrival scripts over {datagram from client A, from client B, wait-for-quiescence, 31 s idle gap} up to length 4 (5 thorough) plus bursts beyond the channel capacities and socket failure, x handler behaviours {echo until end (roomy buffer), read k datagrams with a buffer that fits a datagram exactly then return, read with a 1-byte buffer (two reads per datagram), return without reading}; for each, every interleaving of the real servePacket loop, its reader goroutine, the handler goroutines and the timers under delay bounding (every scheduling choice other than 'continue, else lowest thread id' costs one deviation), select alternatives, early timers and pool misses within a joint deviation budget (3 for histories of <=2 datagrams and selected longer ones, 2 otherwise; +1 in thorough); states = distinct observation digests; scripts with a step that waits for the handlers to return and close (not for the loop) before the next datagram; a second part built with the loop's three channel capacities substituted by 1 (bursts that park the loop while another client's handler finishes), full deviation budget",
		Assumptions: []string{
			"the code under test is /repo's working tree with go/chan/select/sync/atomic/time mechanically redirected to the scheduler (tools/gomcrw)",
			"sequential consistency; interleavings bounded by preemption count, executions run to completion",
		},
		Scenarios: scenarios,
		Run: func(tier string, scAny any, rep *runner.Report) {
			sc := scAny.(*Scn)
			ex := explore.New(bounds(tier))
			ex.Total = total(tier)
			ex.Total = totalFor(tier, sc.Script)
			ex.Stop = rep.Expired
			vsched.StateSink = rep.State
			ex.Explore(func(x *explore.Exec) { check(x, sc, execute(x, sc)) })
			rep.AddStats(sc, &ex.Stats)
			if os.Getenv("VERIF_STATS") != "" {
				fmt.Fprintf(os.Stdout, "%s %s k=%d: execs=%d maxdepth=%d points/exec=%d steps/exec=%d\n", sc.Script, sc.Mode, sc.K, ex.Stats.Executions, ex.Stats.MaxDepth, ex.Stats.Points/ex.Stats.Executions, ex.Stats.Transitions/ex.Stats.Executions)
			}
		},
		DecodeScenario: func(raw json.RawMessage) (any, error) {
			sc := &Scn{}
			return sc, json.Unmarshal(raw, sc)
		},
		Replay: func(scAny any, choices []int) []explore.Failure {
			sc := scAny.(*Scn)
			ex := explore.New(bounds("thorough"))
			return ex.RunOnce(choices, func(x *explore.Exec) { check(x, sc, execute(x, sc)) }).Failures
		},
		Budget: func(tier string) time.Duration {
			if tier == "thorough" {
				return 25 * time.Minute
			}
			return 120 * time.Second
		},
	})
}
