//go:build verif

// C06: matchers are pure functions of the prefix, insensitive to fragmentation.
// For every stream-oriented matcher configuration and every message of its corpus (plus
// trailing data and single-position mutations), EVERY prefix is loaded through the real
// prefetch and judged by the real Match under freeze/unfreeze.
package main

import (
	"bytes"
	"encoding/hex"
	"encoding/json"
	"fmt"
	"sync"
	"time"

	"github.com/mholt/caddy-l4/layer4"

	"verif/mc/enum"
	"verif/mc/explore"
	"verif/mc/mrun"
	"verif/mc/runner"
)

type Scn struct {
	Spec   mrun.Spec `json:"spec"`
	Stream string    `json:"stream,omitempty"` // hex (replay)
}

// verdict class: err counts as a rejection (the router aborts the connection)
func cls(v mrun.Verdict) string {
	if v.V == "err" || v.V == "panic" {
		return "no"
	}
	return v.V
}

func judgeStream(l *mrun.Loaded, s []byte, fail func(sig, msg string)) (evals int, whole string) {
	n := len(s)
	verdicts := make([]string, n+1)
	raw := make([]mrun.Verdict, n+1)
	for i := 0; i <= n; i++ {
		cx, sc := mrun.Conn(s[:i], l.Spec.UDP)
		before := append([]byte(nil), cx.MatchingBytes()...)
		reads := sc.Reads
		v := l.Eval(cx)
		evals++
		raw[i], verdicts[i] = v, cls(v)
		if v.V == "panic" {
			fail("panic:"+l.Spec.Module, fmt.Sprintf("%s panics on prefix %d of %x: %s", l.Spec, i, s, v.Err))
		}
		if sc.Reads != reads {
			fail("reads-network:"+l.Spec.Module, fmt.Sprintf("%s read from the network %d time(s) while matching prefix %d of %x", l.Spec, sc.Reads-reads, i, s))
		}
		if !bytes.Equal(cx.MatchingBytes(), before) || !bytes.Equal(before, s[:i]) {
			fail("changes-stream:"+l.Spec.Module, fmt.Sprintf("after %s evaluated prefix %d of %x the connection replays %x instead of %x", l.Spec, i, s, cx.MatchingBytes(), s[:i]))
		}
		v2 := l.Eval(cx)
		evals++
		if cls(v2) != verdicts[i] {
			fail("not-repeatable:"+l.Spec.Module, fmt.Sprintf("%s says %s and then %s on the same connection holding prefix %d of %x", l.Spec, v, v2, i, s))
		}
		if !bytes.Equal(cx.MatchingBytes(), before) {
			fail("changes-stream:"+l.Spec.Module, fmt.Sprintf("after a second evaluation by %s the connection replays %x instead of %x", l.Spec, cx.MatchingBytes(), s[:i]))
		}
		// the same matcher inside an AND-set next to a 'not' matcher that is true for this
		// connection (not remote_ip <another network>), in both orders: same verdict, still pure
		if nm := notMatcher(); nm != nil {
			for _, set := range []layer4.MatcherSet{{nm, l.M}, {l.M, nm}} {
				reads = sc.Reads
				sv := (&mrun.Loaded{Spec: l.Spec, M: andSet(set)}).Eval(cx)
				evals++
				if cls(sv) != verdicts[i] {
					fail("verdict-differs-inside-a-set:"+l.Spec.Module, fmt.Sprintf("%s says %s alone but %s when AND'ed with a true 'not' matcher, on prefix %d of %x", l.Spec, v, sv, i, s))
				}
				if sc.Reads != reads {
					fail("reads-network:"+l.Spec.Module, fmt.Sprintf("%s AND'ed with a 'not' matcher read from the network %d time(s) while matching prefix %d of %x", l.Spec, sc.Reads-reads, i, s))
				}
				if !bytes.Equal(cx.MatchingBytes(), before) {
					fail("changes-stream:"+l.Spec.Module, fmt.Sprintf("after %s AND'ed with a 'not' matcher evaluated prefix %d of %x the connection replays %x", l.Spec, i, s, cx.MatchingBytes()))
				}
			}
		}
	}
	for i := 0; i < n; i++ {
		if verdicts[i] == "no" {
			for j := i + 1; j <= n; j++ {
				if verdicts[j] != "no" {
					fail("no-not-final:"+l.Spec.Module, fmt.Sprintf("%s rejects prefix %d (%s) of %x but says %s on the longer prefix %d", l.Spec, i, raw[i], s, raw[j], j))
					break
				}
			}
			break
		}
	}
	if verdicts[n] == "yes" {
		for i := 0; i < n; i++ {
			if verdicts[i] == "no" {
				fail("fragment-rejected:"+l.Spec.Module, fmt.Sprintf("%s matches the %d-byte message %x delivered whole but rejects (%s) its %d-byte prefix instead of asking for more", l.Spec, n, s, raw[i], i))
				break
			}
		}
	}
	// the same bytes inside a connection on which this matcher has accepted another message
	// before (cx.Wrap: a terminating handler hands the inner stream on with the outer context,
	// variables and replacer): the verdict is a function of the bytes in front of the matcher
	if !l.Spec.UDP {
		for _, o := range outerSeeds(l) {
			if bytes.Equal(o, s) {
				continue
			}
			outer, _ := mrun.Conn(o, false)
			l.Eval(outer)
			v := l.Eval(mrun.ConnOn(outer, s))
			evals += 2
			if cls(v) != verdicts[n] {
				fail("verdict-depends-on-outer-connection:"+l.Spec.Module, fmt.Sprintf("%s says %s on %x alone but %s on the same bytes inside a connection on which it accepted %x before", l.Spec, raw[n], s, v, o))
			}
		}
	}
	return evals, verdicts[n]
}

var outerCache = map[string][][]byte{}

// outerSeeds: up to two corpus messages the matcher accepts.
func outerSeeds(l *mrun.Loaded) [][]byte {
	k := l.Spec.String()
	if c, ok := outerCache[k]; ok {
		return c
	}
	var out [][]byte
	for _, m := range mrun.Seeds(l.Spec) {
		if len(out) == 2 {
			break
		}
		if len(m) > 4096 {
			continue
		}
		if cx, _ := mrun.Conn(m, false); l.Eval(cx).V == "yes" {
			out = append(out, m)
		}
	}
	outerCache[k] = out
	return out
}

// andSet makes a matcher set usable where a single matcher is expected.
type andSet layer4.MatcherSet

func (a andSet) Match(cx *layer4.Connection) (bool, error) { return layer4.MatcherSet(a).Match(cx) }

var notM layer4.ConnMatcher
var notOnce sync.Once

func notMatcher() layer4.ConnMatcher {
	notOnce.Do(func() {
		if l, err := mrun.Load(mrun.Spec{Module: "not", Config: json.RawMessage(`[{"remote_ip":{"ranges":["203.0.113.0/24"]}}]`)}); err == nil {
			notM = l.M
		}
	})
	return notM
}

func streamOriented(sp mrun.Spec) bool {
	if sp.UDP {
		return false
	}
	switch sp.Module {
	case "wireguard", "quic":
		return false
	}
	return true
}

func streams(sp mrun.Spec, tier string, yield func([]byte) bool) {
	seen := map[string]bool{}
	emit := func(b []byte) bool {
		if len(b) > 1200 || seen[string(b)] {
			return true
		}
		seen[string(b)] = true
		return yield(b)
	}
	alpha := enum.Boundary[:6]
	for _, s := range mrun.Seeds(sp) {
		if len(s) > 700 {
			continue
		}
		for _, tail := range [][]byte{nil, {0}, {'\n'}, s} {
			if !emit(append(append([]byte(nil), s...), tail...)) {
				return
			}
		}
		if tier == "thorough" || len(s) <= 64 {
			ok := true
			enum.Mutations(s, alpha, func(b []byte) bool {
				if len(b) == len(s) { // substitutions only: prefixes are enumerated anyway
					ok = emit(b)
				}
				return ok
			})
			if !ok {
				return
			}
		}
	}
}

func main() {
	runner.Main(&runner.Harness{
		ID:    "C06",
		Level: "model_checking",
		Rule:  "every stream-oriented matcher configuration (tls, http, ssh, xmpp, postgres, proxy_protocol, socks4, socks5, regexp, rdp, dns/TCP, openvpn/TCP, winbox; default + filtered) x every message of its corpus (test vectors, hand-written messages, protocol generators) with trailing data {none, 00, LF, the message again} and single-position substitutions (messages <=64 bytes; all in thorough) x EVERY prefix length; each prefix is loaded by the real prefetch and judged twice by the real Match under freeze/unfreeze, and again inside an AND-set next to a true 'not' matcher in both orders; states = distinct (configuration, prefix) pairs",
		Assumptions: []string{
			"an error verdict counts as a rejection (the router aborts the connection)",
			"yes on a prefix followed by no on a longer prefix is allowed by the property text and not checked",
		},
		Scenarios: func(tier string, yield func(any) bool) {
			for _, sp := range mrun.Specs() {
				if streamOriented(sp) {
					if !yield(&Scn{Spec: sp}) {
						return
					}
				}
			}
		},
		Run: func(tier string, scAny any, rep *runner.Report) {
			sc := scAny.(*Scn)
			l, err := mrun.Load(sc.Spec)
			if err != nil {
				rep.Incident("MATCHER-LOAD-FAILED")
				return
			}
			defer l.Close()
			rep.Scenarios++
			// all streams go through the same loaded matcher, one after the other: a failure
			// that needs the previous stream (state kept in the matcher) is replayed with it
			var seq runner.Seq
			streams(sc.Spec, tier, func(s []byte) bool {
				one := *sc
				one.Stream = hex.EncodeToString(s)
				n, whole := judgeStream(l, s, func(sig, msg string) {
					seq.FailAfter(rep, &one, sig, msg, nil)
				})
				seq.Done(&one, nil)
				rep.Executions += int64(n)
				rep.Transitions += int64(n)
				rep.States += int64(len(s) + 1)
				if whole == "yes" {
					rep.Nontrivial++
				}
				rep.Outcome(uint64(len(s))<<8 | uint64(len(whole)))
				return !rep.Expired()
			})
		},
		DecodeScenario: func(raw json.RawMessage) (any, error) {
			sc := &Scn{}
			return sc, json.Unmarshal(raw, sc)
		},
		Replay: func(scAny any, _ []int) []explore.Failure {
			sc := scAny.(*Scn)
			l, err := mrun.Load(sc.Spec)
			if err != nil {
				return nil
			}
			defer l.Close()
			s, _ := hex.DecodeString(sc.Stream)
			var out []explore.Failure
			judgeStream(l, s, func(sig, msg string) { out = append(out, explore.Failure{Sig: sig, Msg: msg}) })
			return out
		},
		ReplayH: func(hist []runner.HistItem, scAny any, _ []int) []explore.Failure {
			sc := scAny.(*Scn)
			l, err := mrun.Load(sc.Spec)
			if err != nil {
				return nil
			}
			defer l.Close()
			for _, it := range hist {
				hs := &Scn{}
				json.Unmarshal(it.Scenario, hs)
				b, _ := hex.DecodeString(hs.Stream)
				judgeStream(l, b, func(string, string) {})
			}
			s, _ := hex.DecodeString(sc.Stream)
			var out []explore.Failure
			judgeStream(l, s, func(sig, msg string) { out = append(out, explore.Failure{Sig: sig, Msg: msg}) })
			return out
		},
		Budget: func(tier string) time.Duration {
			if tier == "thorough" {
				return 25 * time.Minute
			}
			return 120 * time.Second
		},
	})
}
