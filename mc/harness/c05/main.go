//go:build verif

// C05: matching is bounded by timeout and buffer limit, never early, fails closed.
// The real (rewritten) Compile / prefetch / Server.handle / servePacket / packetConn code
// runs under the controlled scheduler with a virtual clock, so deadlines are judged with
// exact timestamps.
package main

import (
	"bytes"
	"context"
	"encoding/json"
	"fmt"
	"os"
	"strings"
	"sync"
	"time"

	"github.com/caddyserver/caddy/v2"
	"go.uber.org/zap"
	"go.uber.org/zap/zapcore"
	"go.uber.org/zap/zaptest/observer"

	"github.com/mholt/caddy-l4/layer4"
	_ "github.com/mholt/caddy-l4/modules/l4http"
	_ "github.com/mholt/caddy-l4/modules/l4subroute"

	"verif/mc/enum"
	"verif/mc/explore"
	"verif/mc/hm"
	"verif/mc/mrun"
	"verif/mc/runner"
	"verif/mc/vnet"
	"verif/mc/vsched"
	"verif/mc/vtime"
)

type Scn struct {
	Proto   string `json:"proto"`   // tcp | udp
	Routes  string `json:"routes"`  // undecided | nonterm | sub | decide | needbig
	Client  string `json:"client"`  // silent | trickle | flood | late | eof
	Timeout int    `json:"timeout"` // ms
	Delta   int    `json:"delta"`   // ms between trickled bytes
	Phase   int    `json:"phase"`   // ms within the wall-clock second at which the execution starts
}

var (
	chunk = layer4.VerifPrefetchChunkSize()
	limit = layer4.MaxMatchingBytes
)

// vclock gives zap the virtual clock, so log entries carry virtual timestamps.
type vclock struct{}

func (vclock) Now() time.Time                         { return vtime.Now() }
func (vclock) NewTicker(d time.Duration) *time.Ticker { return time.NewTicker(d) }

type timedEvent struct {
	At           int64
	What         string
	N            int
	Err          string
	DeadlineZero bool
}

type hlog struct {
	mu sync.Mutex
	ev []timedEvent
}

var H *hlog
var curConn *vnet.Conn

func (h *hlog) add(e timedEvent) {
	e.At = vsched.NowNS()
	h.mu.Lock()
	h.ev = append(h.ev, e)
	h.mu.Unlock()
}

// Timed is a terminal handler that records when it starts and every read with its time.
type Timed struct{}

func (*Timed) CaddyModule() caddy.ModuleInfo {
	return caddy.ModuleInfo{ID: "layer4.handlers.h_timed", New: func() caddy.Module { return new(Timed) }}
}

func (*Timed) Handle(cx *layer4.Connection, _ layer4.Handler) error {
	dz := true
	if curConn != nil {
		dz = curConn.ReadDeadline().IsZero()
	}
	H.add(timedEvent{What: "handler-start", DeadlineZero: dz})
	buf := make([]byte, 64)
	for {
		n, err := cx.Read(buf)
		es := ""
		if err != nil {
			es = err.Error()
		}
		H.add(timedEvent{What: "handler-read", N: n, Err: es})
		if err != nil {
			return nil
		}
	}
}

func init() { caddy.RegisterModule(&Timed{}) }

func routesFor(sc *Scn) string {
	T := fmt.Sprintf(`"%dms"`, sc.Timeout)
	und := `{"match":[{"h_need":{"id":"und","k":100}}],"handle":[{"handler":"h_timed"}]}`
	switch sc.Routes {
	case "undecided":
		return "[" + und + "]"
	case "h2":
		// the shipped http matcher: an HTTP/2 prior-knowledge request that arrives in two
		// segments is undecided after the first and decided after the second
		return `[{"match":[{"http":[{}]}],"handle":[{"handler":"h_timed"}]}]`
	case "errset":
		// two OR'ed matcher sets: the first fails with a matcher error on the client's bytes, the
		// second would match them - matching ends by the error (fail closed), no handler runs
		return `[{"match":[{"h_need":{"id":"strict","k":4,"err_on":"BAD!"}},{"h_need":{"id":"lax","k":1,"pat":"B"}}],"handle":[{"handler":"h_timed"}]}]`
	case "noterr":
		// a negated matcher that fails with a matcher error on the client's bytes: the error
		// ends matching (fail closed), it is not a "did not match" to be negated
		return `[{"match":[{"not":[{"h_need":{"id":"strict","k":4,"err_on":"BAD!"}}]}],"handle":[{"handler":"h_timed"}]}]`
	case "notbig":
		// a negated matcher that can never be decided within the buffer limit
		return fmt.Sprintf(`[{"match":[{"not":[{"h_need":{"id":"big","k":%d}}]}],"handle":[{"handler":"h_timed"}]}]`, limit+5000)
	case "und2":
		// undecided even after one full prefetch chunk (client 'exact' sends exactly one)
		return fmt.Sprintf(`[{"match":[{"h_need":{"id":"und2","k":%d}}],"handle":[{"handler":"h_timed"}]}]`, chunk+100)
	case "nonterm":
		return `[{"match":[{"h_need":{"id":"one","k":1}}],"handle":[{"handler":"h_consume","id":"c1","n":1}]},` + und + "]"
	case "sub":
		return `[{"match":[{"h_need":{"id":"one","k":1}}],"handle":[{"handler":"subroute","matching_timeout":` + T + `,"routes":[` + und + `]}]}]`
	case "decide":
		return `[{"match":[{"h_need":{"id":"abc","k":3,"pat":"abc"}}],"handle":[{"handler":"h_timed"}]}]`
	case "fallthru":
		// inside a subroute: a first route (no matcher) matches at once and consumes a byte, the
		// second is undecided until the next bytes and then says no - the connection falls through
		// to the handler behind the subroute, which the matching deadline must not limit either
		return `[{"match":[{"h_need":{"id":"one","k":1}}],"handle":[{"handler":"subroute","matching_timeout":` + T + `,"routes":[{"handle":[{"handler":"h_consume","id":"c1","n":1}]},{"match":[{"h_need":{"id":"zz","k":2,"pat":"zz"}}],"handle":[{"handler":"h_consume","id":"never","n":1}]}]},{"handler":"h_timed"}]}]`
	case "needbig":
		return fmt.Sprintf(`[{"match":[{"h_need":{"id":"big","k":%d}}],"handle":[{"handler":"h_timed"}]}]`, limit+5000)
	case "httpbig":
		// the shipped http matcher inside a subroute that is followed by another handler: a request
		// line followed by a header block that never ends can only end matching by buffer
		// exhaustion, after which neither the route's handler nor the one behind the subroute runs
		return `[{"match":[{"h_need":{"id":"one","k":1}}],"handle":[{"handler":"subroute","matching_timeout":` + T + `,"routes":[{"match":[{"http":[{}]}],"handle":[{"handler":"h_timed"}]}]},{"handler":"h_timed"}]}]`
	case "eatbig":
		// a first route is decided on three buffered chunks and its non-terminal handler
		// consumes two of them; the next route can never be decided within the limit
		return fmt.Sprintf(`[{"match":[{"h_need":{"id":"two","k":%d}}],"handle":[{"handler":"h_consume","id":"c","n":%d}]},{"match":[{"h_need":{"id":"big","k":%d}}],"handle":[{"handler":"h_timed"}]}]`, 2*chunk+1, 2*chunk+1, limit+5000)
	}
	panic(sc.Routes)
}

type result struct {
	out         vsched.Outcome
	logs        []observer.LoggedEntry
	ev          []timedEvent
	start       int64 // virtual ns at which the connection reached the server
	closedAt    int64
	closed      bool
	pulled      int
	bufHigh     int // high-water mark of the matching buffer (seen at every matcher evaluation)
	firstByteAt int64
}

func execute(x *explore.Exec, sc *Scn) *result {
	res := &result{closedAt: -1, firstByteAt: -1}
	H = &hlog{}
	curConn = nil
	hm.OnMatch = func(cx *layer4.Connection) {
		if n := layer4.VerifBufLen(cx); n > res.bufHigh {
			res.bufHigh = n
		}
	}
	layer4.VerifResetPools()
	var trace func(string)
	if os.Getenv("VERIF_TRACE") != "" {
		trace = func(l string) { fmt.Printf("  | %8.3fs %s\n", float64(vsched.NowNS())/1e9, l) }
	}
	base := time.Date(2026, 1, 2, 3, 4, 5, sc.Phase*1e6, time.UTC)
	core, obs := observer.New(zapcore.DebugLevel)
	res.out = vsched.Run(x, vsched.Options{Horizon: 20000, Base: base, Trace: trace}, func() {
		logger := zap.New(core, zap.WithClock(vclock{}))
		ctx, cancel := caddy.NewContext(caddy.Context{Context: context.Background()})
		defer cancel()
		srv := &layer4.Server{MatchingTimeout: caddy.Duration(time.Duration(sc.Timeout) * time.Millisecond)}
		if err := json.Unmarshal([]byte(routesFor(sc)), &srv.Routes); err != nil {
			panic(err)
		}
		if err := srv.Provision(ctx, logger); err != nil {
			panic(err)
		}
		T := time.Duration(sc.Timeout) * time.Millisecond
		delta := time.Duration(sc.Delta) * time.Millisecond
		if sc.Proto == "tcp" {
			cl, sv := vnet.Pipe("client", "server", vnet.TCP("192.0.2.9", 40000), vnet.TCP("10.0.0.1", 443))
			sv.Menu = hm.StdMenu(1, chunk-1)
			curConn = sv
			res.start = vsched.NowNS()
			vsched.GoNamed("handle", func() {
				layer4.VerifHandle(srv, sv)
				res.closedAt = vsched.NowNS()
			})
			vsched.GoNamed("client", func() {
				switch sc.Client {
				case "silent":
				case "trickle":
					for i := 0; i < sc.Timeout/sc.Delta+4; i++ {
						vtime.Sleep(delta)
						if _, err := cl.Write([]byte{byte('a' + i%26)}); err != nil {
							return
						}
						if res.firstByteAt < 0 {
							res.firstByteAt = vsched.NowNS()
						}
					}
				case "eof":
					cl.Write([]byte("ab"))
					cl.CloseWrite()
				case "bad":
					cl.Write([]byte("BAD!"))
					res.firstByteAt = vsched.NowNS()
				case "h2split":
					req := h2Request()
					cut := 18 + sc.Delta%(len(req)-19) // somewhere behind the PRI line, inside the frames
					cl.Write(req[:cut])
					res.firstByteAt = vsched.NowNS()
					vtime.Sleep(T / 3)
					cl.Write(req[cut:])
					cl.CloseWrite()
				case "exact":
					cl.Write(make([]byte, chunk)) // exactly one prefetch chunk, then silence
					res.firstByteAt = vsched.NowNS()
				case "flood":
					blk := make([]byte, chunk)
					for sent := 0; sent < limit+3*chunk; sent += chunk {
						if _, err := cl.Write(blk); err != nil {
							return
						}
					}
				case "httpflood":
					// Delta selects the shape of the endless header block
					head, line := "GET /x HTTP/1.1\r\nHost: a.test\r\nX-Fill: ", strings.Repeat("a", 64)
					switch sc.Delta {
					case 1:
						line = "\r\nX-Line: " + strings.Repeat("b", 53)
					case 2:
						head, line = "GET /x HTTP/1.1\nHost: a.test\nX-Fill: a", "\nX-Line: "+strings.Repeat("c", 54)
					}
					blk := []byte(head)
					for len(blk) < chunk {
						blk = append(blk, line...)
					}
					for sent := 0; sent < limit+3*chunk; sent += len(blk) {
						if _, err := cl.Write(blk); err != nil {
							return
						}
						if blk[0] == 'G' {
							blk = []byte(strings.Repeat(line, len(blk)/len(line)))
						}
					}
				case "late":
					cl.Write([]byte("abc"))
					vtime.Sleep(T + time.Second)
					cl.Write([]byte("xyz"))
					cl.CloseWrite()
				}
			})
			vtime.Sleep(3*T + 3*time.Second)
		} else {
			pc := vnet.NewPacketConn(vnet.UDP("10.0.0.1", 53))
			vsched.GoNamed("serve", func() { layer4.VerifServePacket(srv, pc) })
			addr := hm.MustUDPAddr("192.0.2.9:4000")
			send := func(b []byte) {
				if res.firstByteAt < 0 {
					res.firstByteAt = vsched.NowNS()
					res.start = res.firstByteAt
				}
				pc.Inject(vnet.Datagram{Data: b, Addr: addr})
			}
			switch sc.Client {
			case "silent": // one datagram creates the association, then silence
				send([]byte("a"))
			case "exact": // a datagram that fills the prefetch buffer exactly, then silence
				send(make([]byte, chunk))
			case "bad":
				send([]byte("BAD!"))
			case "trickle":
				for i := 0; i < sc.Timeout/sc.Delta+4; i++ {
					send([]byte{byte('a' + i%26)})
					vtime.Sleep(delta)
					if len(obs.FilterMessage("connection stats").All()) > 0 {
						break
					}
				}
			case "late":
				send([]byte("abc"))
				vtime.Sleep(T + time.Second)
				send([]byte("xyz"))
			}
			vtime.Sleep(4*T + 70*time.Second)
			pc.Fail(os.ErrClosed)
			vtime.Sleep(time.Second)
		}
	})
	if curConn != nil { // judged when every thread has finished
		res.closed = curConn.Closed()
		res.pulled = curConn.BytesRead
	}
	res.logs = obs.All()
	res.ev = H.ev
	return res
}

func check(x *explore.Exec, sc *Scn, r *result) {
	T := int64(sc.Timeout) * 1e6
	desc := func() string {
		var sb strings.Builder
		for _, l := range r.logs {
			if l.Message == "prefetched" || l.Message == "matching" {
				continue
			}
			fmt.Fprintf(&sb, "log(%.3fs %s %v) ", float64(vsched.NS2(l.Time, baseOf(sc)))/1e9, l.Message, l.ContextMap()["error"])
		}
		for _, e := range r.ev {
			fmt.Fprintf(&sb, "%s(%.3fs n=%d %s) ", e.What, float64(e.At)/1e9, e.N, e.Err)
		}
		return fmt.Sprintf("scenario=%s start=%.3fs closedAt=%.3fs pulled=%d %s", hm.J(sc), float64(r.start)/1e9, float64(r.closedAt)/1e9, r.pulled, sb.String())
	}
	for _, p := range r.out.Panics {
		x.Fail("panic:"+p[strings.LastIndex(p, " at ")+4:], "a thread panicked: %s; %s", p, desc())
	}
	if r.out.Horizon {
		x.Fail("horizon", "step horizon exceeded; %s", desc())
		return
	}
	// when did matching end, and how?
	var abortAt int64 = -1
	abortErr := ""
	for _, l := range r.logs {
		if l.Message == "matching connection" && abortAt < 0 {
			abortAt = vsched.NS2(l.Time, baseOf(sc))
			abortErr = fmt.Sprint(l.ContextMap()["error"])
		}
	}
	// the handling of the connection ends with the server's 'connection stats' entry
	var endAt int64 = -1
	for _, l := range r.logs {
		if l.Message == "connection stats" && endAt < 0 {
			endAt = vsched.NS2(l.Time, baseOf(sc))
		}
	}
	if abortAt < 0 && sc.Routes == "sub" {
		abortAt, abortErr = endAt, "(subroute: timeout assumed)"
	}
	if abortAt < 0 && sc.Routes == "httpbig" {
		abortAt, abortErr = endAt, "(subroute: logged by its own logger)"
	}
	const eps = 1000 // the virtual clock lands 1 ns past each timer; allow 1 us
	handlerStarted := false
	var handlerAt int64
	var handlerBytes int
	handlerDeadlineZero := true
	handlerErr := ""
	for _, e := range r.ev {
		switch e.What {
		case "handler-start":
			if !handlerStarted {
				handlerAt = e.At
			}
			handlerStarted = true
			handlerDeadlineZero = e.DeadlineZero
		case "handler-read":
			handlerBytes += e.N
			if e.Err != "" {
				handlerErr = e.Err
			}
		}
	}
	_ = handlerAt
	noTimeDev := x.Used(explore.KTime) == 0
	switch sc.Routes {
	case "undecided", "und2", "nonterm", "sub":
		if handlerStarted {
			x.Fail("handler-after-undecided", "a handler ran although its route can never be decided; %s", desc())
		}
		if sc.Client == "eof" {
			break
		}
		ref := r.start // the list's matching phase starts when the connection arrives
		if sc.Routes == "sub" {
			if r.firstByteAt < 0 || (sc.Proto == "tcp" && r.pulled == 0) {
				ref = r.start // the outer list itself stayed undecided: its own deadline applies
			} else {
				ref = r.firstByteAt // the subroute's own list starts when the outer route matched
			}
		}
		if abortAt < 0 {
			x.Fail("matching-never-ended", "matching did not end although a route stayed undecided past the timeout; %s", desc())
			break
		}
		if !strings.Contains(abortErr, "timeout") && noTimeDev {
			x.Fail("undecided-ended-without-timeout", "matching of an undecided connection ended with %q, not by the matching timeout; %s", abortErr, desc())
		}
		if ref >= 0 && abortAt < ref+T {
			x.Fail("matching-abandoned-early:"+sc.Proto, "matching was abandoned %.3fs after it started, before the %.3fs timeout had elapsed, while a route was still undecided; %s", float64(abortAt-ref)/1e9, float64(T)/1e9, desc())
		}
		if ref >= 0 && noTimeDev && abortAt > ref+T+eps {
			x.Fail("matching-outlasts-timeout:"+sc.Proto, "matching ended %.3fs after it started, later than the %.3fs timeout (no thread was delayed); %s", float64(abortAt-ref)/1e9, float64(T)/1e9, desc())
		}
	case "h2":
		if noTimeDev && !handlerStarted {
			x.Fail("decided-route-did-not-run", "the http route matches the complete HTTP/2 request, whose second half arrived a third of the matching timeout after the first, yet its handler never ran (abort: %q); %s", abortErr, desc())
		}
	case "errset", "noterr":
		if handlerStarted {
			x.Fail("handler-after-matcher-error", "a handler ran although matching ended by a matcher error (fail closed); %s", desc())
		}
		if abortAt < 0 {
			x.Fail("matching-never-ended", "matching did not end although a matcher failed; %s", desc())
		}
	case "needbig", "eatbig", "httpbig", "notbig":
		if handlerStarted {
			x.Fail("handler-after-buffer-full", "a handler ran although matching needs more than the buffer limit; %s", desc())
		}
		if sc.Routes == "needbig" && r.pulled > limit+chunk {
			x.Fail("buffered-beyond-limit", "%d bytes were pulled from the client during matching, more than limit+chunk = %d; %s", r.pulled, limit+chunk, desc())
		}
		if r.bufHigh > limit+chunk {
			x.Fail("buffered-beyond-limit", "the matching buffer held %d bytes, more than limit+chunk = %d; %s", r.bufHigh, limit+chunk, desc())
		}
		if abortAt < 0 {
			x.Fail("matching-never-ended", "matching did not end; %s", desc())
		}
	case "decide", "fallthru":
		if !handlerStarted && !noTimeDev {
			break // the client was delayed past the timeout
		}
		if !handlerStarted {
			x.Fail("matched-handler-not-run", "the route matched but its handler did not run; %s", desc())
			break
		}
		if sc.Proto == "tcp" && !handlerDeadlineZero {
			x.Fail("deadline-armed-in-handler", "the matched route's handler started with the matching deadline still armed; %s", desc())
		}
		if sc.Client == "late" && noTimeDev {
			want := 6
			if sc.Routes == "fallthru" {
				want = 5 // the first inner route consumed a byte
			}
			if handlerBytes != want || (sc.Proto == "tcp" && handlerErr != "EOF") {
				x.Fail("handler-limited-by-deadline:"+sc.Proto, "the handler of the matched route read %d of %d bytes and ended with %q: the matching deadline still limits it; %s", handlerBytes, want, handlerErr, desc())
			}
		}
	}
	if sc.Proto == "tcp" {
		if !r.closed && len(r.out.Panics) == 0 {
			x.Fail("connection-not-closed", "the connection was not closed after handling ended; %s", desc())
		}
	}
	x.Observe(abortAt, abortErr, handlerStarted, handlerBytes, r.pulled > 0)
}

// h2Request returns the HTTP/2 prior-knowledge sample of the l4http tests (client preface,
// SETTINGS, HEADERS).
var h2Sample []byte

func h2Request() []byte {
	if h2Sample != nil {
		return h2Sample
	}
	l, err := mrun.Load(mrun.Spec{Module: "http", Config: json.RawMessage(`[{}]`)})
	if err != nil {
		panic(err)
	}
	defer l.Close()
	for _, b := range enum.CorpusFromTests("/repo/modules/l4http") {
		if bytes.HasPrefix(b, []byte("PRI * HTTP/2.0\r\n\r\nSM\r\n\r\n")) && len(b) > 60 {
			if cx, _ := mrun.Conn(b, false); l.Eval(cx).V == "yes" { // a request the matcher accepts when it arrives whole
				h2Sample = b
				return b
			}
		}
	}
	panic("no HTTP/2 prior-knowledge sample in the l4http tests")
}

func baseOf(sc *Scn) time.Time { return time.Date(2026, 1, 2, 3, 4, 5, sc.Phase*1e6, time.UTC) }

func scenarios(tier string, yield func(any) bool) {
	timeouts := []int{300, 1000, 2500, 3000}
	phases := []int{0, 300, 700, 999}
	deltas := []int{100, 400, 1100}
	for _, proto := range []string{"tcp", "udp"} {
		for _, T := range timeouts {
			for _, ph := range phases {
				for _, routes := range []string{"undecided", "und2", "errset", "h2", "nonterm", "sub", "decide", "needbig", "eatbig", "httpbig", "fallthru", "noterr", "notbig"} {
					var clients []string
					switch routes {
					case "undecided":
						clients = []string{"silent", "trickle", "eof"}
					case "und2":
						clients = []string{"exact"}
					case "errset", "noterr":
						clients = []string{"bad"}
					case "h2":
						clients = []string{"h2split"}
					case "nonterm", "sub":
						clients = []string{"trickle"}
					case "decide", "fallthru":
						clients = []string{"late"}
					case "needbig", "eatbig", "notbig":
						clients = []string{"flood"}
					case "httpbig":
						clients = []string{"httpflood"}
					}
					for _, cl := range clients {
						if proto == "udp" && (cl == "eof" || cl == "flood" || cl == "httpflood") {
							continue
						}
						ds := []int{0}
						if cl == "trickle" {
							ds = deltas
						}
						if cl == "httpflood" {
							if ph != 0 {
								continue
							}
							ds = []int{0, 1, 2}
						}
						if cl == "h2split" {
							if proto == "udp" || ph != 0 {
								continue
							}
							ds = []int{0, 7, 31, 60, 97} // where the request is cut (offset behind the PRI line)
						}
						for _, d := range ds {
							if !yield(&Scn{Proto: proto, Routes: routes, Client: cl, Timeout: T, Delta: d, Phase: ph}) {
								return
							}
						}
					}
				}
			}
		}
	}
}

func bounds(tier string) (explore.Bounds, int) {
	b := explore.DefaultBounds(1)
	b[explore.KSelect] = 1
	b[explore.KSched] = 4
	b[explore.KTime] = 2
	if tier == "thorough" {
		b[explore.KSched] = 5
		b[explore.KTime] = 3
		return b, 4
	}
	return b, 3
}

func main() {
	runner.Main(&runner.Harness{
		ID:    "C05",
		Level: "model_checking",
		Rule:  "TCP (Server.handle over a virtual connection) and UDP (servePacket/packetConn over a virtual socket) x matching timeouts {0.3,1,2.5,3 s} x wall-clock phase within the second {0,.3,.7,.999} x route lists {always undecided, non-terminal route then undecided, subroute with its own undecided list, decided after 3 bytes, needs more than the buffer limit} x clients {silent, one byte every 0.1/0.4/1.1 s, half-close, flood of limit+3 chunks, late second write after the timeout}; every interleaving / early timer / select alternative / short read within the joint deviation budget (delay bounding; 3 quick, 4 thorough; one less for timeouts above 0.3 s); virtual clock, exact timestamps from the code's own log entries; route list httpbig: the shipped http matcher inside a subroute followed by another handler, against a request line followed by a never-ending header block in three shapes (one long value, many CRLF lines, LF-only lines)",
		Assumptions: []string{
			"computation takes no virtual time; 'not before the timeout' is asserted on every execution, 'not after' only on executions without timer deviations",
			"zap is given the virtual clock; the moment matching ends is the timestamp of the code's own 'matching connection' log entry",
		},
		Scenarios: scenarios,
		Run: func(tier string, scAny any, rep *runner.Report) {
			sc := scAny.(*Scn)
			b, tot := bounds(tier)
			ex := explore.New(b)
			ex.Total = tot
			if !(sc.Timeout == 300 && (sc.Phase == 0 || tier == "thorough")) {
				ex.Total-- // the full budget goes to the short histories (0.3 s timeout)
			}
			if sc.Timeout > 1000 && sc.Delta == 100 {
				ex.Total-- // very long trickle histories
			}
			ex.Stop = rep.Expired
			vsched.StateSink = rep.State
			ex.Explore(func(x *explore.Exec) { check(x, sc, execute(x, sc)) })
			rep.AddStats(sc, &ex.Stats)
			if os.Getenv("VERIF_STATS") != "" {
				fmt.Printf("%s: execs=%d steps/exec=%d\n", hm.J(sc), ex.Stats.Executions, ex.Stats.Transitions/ex.Stats.Executions)
			}
		},
		DecodeScenario: func(raw json.RawMessage) (any, error) {
			sc := &Scn{}
			return sc, json.Unmarshal(raw, sc)
		},
		Replay: func(scAny any, choices []int) []explore.Failure {
			sc := scAny.(*Scn)
			b, _ := bounds("thorough")
			ex := explore.New(b)
			return ex.RunOnce(choices, func(x *explore.Exec) { check(x, sc, execute(x, sc)) }).Failures
		},
		Budget: func(tier string) time.Duration {
			if tier == "thorough" {
				return 25 * time.Minute
			}
			return 120 * time.Second
		},
	})
}
