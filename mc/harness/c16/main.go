//go:build verif

// C16: the SOCKS5 handler serves only enabled commands and only authenticated clients.
// The real Socks5Handler (and the go-socks5 library, mechanically rewritten so that its
// goroutines, net.Dial and net.ListenUDP go through the scheduler and the virtual network)
// is driven with every client dialogue from a grammar, for every command set and
// credential map; the virtual network counts outbound connections and listeners.
package main

import (
	"context"
	"encoding/hex"
	"encoding/json"
	"fmt"
	"io"
	"net"
	"os"
	"sort"
	"strings"
	"time"

	"github.com/caddyserver/caddy/v2"
	"github.com/caddyserver/caddy/v2/caddyconfig"
	"github.com/caddyserver/caddy/v2/caddyconfig/caddyfile"
	"go.uber.org/zap"

	"github.com/mholt/caddy-l4/layer4"
	"github.com/mholt/caddy-l4/modules/l4socks"

	"verif/mc/explore"
	"verif/mc/hm"
	"verif/mc/runner"
	"verif/mc/vnet"
	"verif/mc/vsched"
	"verif/mc/vtime"
)

type Dialogue struct {
	GVer    int    `json:"gver"`
	Methods []int  `json:"methods"`
	Auth    bool   `json:"auth"` // an RFC 1929 sub-negotiation follows the greeting
	AVer    int    `json:"aver"`
	User    string `json:"user"`
	Pass    string `json:"pass"`
	RVer    int    `json:"rver"`
	Cmd     int    `json:"cmd"`
	Atyp    int    `json:"atyp"`
	Trunc   int    `json:"trunc"` // -1: whole dialogue, else only this many bytes are sent
}

func (d Dialogue) Bytes() []byte {
	b := []byte{byte(d.GVer), byte(len(d.Methods))}
	for _, m := range d.Methods {
		b = append(b, byte(m))
	}
	if d.Auth {
		b = append(b, byte(d.AVer), byte(len(d.User)))
		b = append(b, d.User...)
		b = append(b, byte(len(d.Pass)))
		b = append(b, d.Pass...)
	}
	b = append(b, byte(d.RVer), byte(d.Cmd), 0, byte(d.Atyp))
	switch d.Atyp {
	case 1:
		b = append(b, 10, 0, 0, 99)
	case 3:
		b = append(b, 9)
		b = append(b, "localhost"...)
	case 4:
		b = append(b, net.ParseIP("2001:db8::99").To16()...)
	default:
		b = append(b, 1, 2, 3, 4)
	}
	b = append(b, 0x01, 0xbb)
	if d.Trunc >= 0 && d.Trunc < len(b) {
		b = b[:d.Trunc]
	}
	return b
}

type Scn struct {
	Commands []string          `json:"commands"`
	Creds    map[string]string `json:"creds"`
	// EmptyName: the configuration also lists an account whose user name is a placeholder that
	// resolves to nothing
	EmptyName bool `json:"empty_name,omitempty"`
	// Dangling (Caddyfile form): all pairs on one credentials line, followed by a user name
	// without a password.  The documented syntax has pairs only: the block is refused - and if
	// it is not, the dangling name is nobody's account
	Dangling string    `json:"dangling,omitempty"`
	Form     string    `json:"form,omitempty"`     // "" = JSON configuration; "caddyfile" = the same options written as a Caddyfile block and parsed by the handler's UnmarshalCaddyfile
	D        *Dialogue `json:"dialogue,omitempty"` // replay
	// Rotate: commands and passwords are written as {env.*} placeholders; a first handler is
	// provisioned while the variables hold OTHER values (the configuration before a secret was
	// rotated and the config reloaded), then the variables are set to the values of this
	// scenario and the handler under test is provisioned from the same raw configuration
	Rotate bool `json:"rotate,omitempty"`
}

// rawConfig: the configuration as written (placeholders unresolved) and the environment that
// resolves it to the scenario's commands and credentials.
func rawConfig(sc *Scn) (cmds []string, creds map[string]string, env map[string]string) {
	if sc.EmptyName {
		// next to the configured accounts, an optional one whose name and password are
		// placeholders of variables that are not set: it names nobody and is no account
		creds = map[string]string{"{env.VERIF_C16_UNSET_USER}": "{env.VERIF_C16_UNSET_PASS}"}
		for u, p := range sc.Creds {
			creds[u] = p
		}
		return sc.Commands, creds, nil
	}
	if !sc.Rotate {
		return sc.Commands, sc.Creds, nil
	}
	env = map[string]string{}
	for i, c := range sc.Commands {
		k := fmt.Sprintf("VERIF_C16_CMD%d", i)
		env[k] = c
		cmds = append(cmds, "{env."+k+"}")
	}
	if sc.Creds != nil {
		creds = map[string]string{}
		var users []string
		for u := range sc.Creds {
			users = append(users, u)
		}
		sort.Strings(users)
		for i, u := range users {
			k := fmt.Sprintf("VERIF_C16_PW%d", i)
			env[k] = sc.Creds[u]
			creds[u] = "{env." + k + "}"
		}
	}
	return cmds, creds, env
}

// handlerConfig returns the handler's JSON configuration: stated directly, or obtained from
// the equivalent Caddyfile block the way the Caddyfile adapter does.
func handlerConfig(sc *Scn) (json.RawMessage, error) {
	if sc.Form != "caddyfile" {
		cmds, creds, _ := rawConfig(sc)
		cfg := map[string]any{"handler": "socks5"}
		if len(cmds) > 0 {
			cfg["commands"] = cmds
		}
		if len(creds) > 0 {
			cfg["credentials"] = creds
		}
		return hm.J(cfg), nil
	}
	var sb strings.Builder
	sb.WriteString("socks5 {\n")
	for _, c := range sc.Commands { // one line per command: repeated options accumulate
		fmt.Fprintf(&sb, "\tcommands %s\n", c)
	}
	var users []string
	for u := range sc.Creds {
		users = append(users, u)
	}
	sort.Strings(users)
	if sc.Dangling != "" {
		sb.WriteString("\tcredentials")
		for _, u := range users {
			fmt.Fprintf(&sb, " %q %q", u, sc.Creds[u])
		}
		fmt.Fprintf(&sb, " %q\n", sc.Dangling)
	} else {
		for _, u := range users {
			fmt.Fprintf(&sb, "\tcredentials %q %q\n", u, sc.Creds[u])
		}
	}
	sb.WriteString("}\n")
	h := &l4socks.Socks5Handler{}
	if err := h.UnmarshalCaddyfile(caddyfile.NewTestDispenser(sb.String())); err != nil {
		return nil, err
	}
	return caddyconfig.JSONModuleObject(h, "handler", "socks5", nil), nil
}

// reference semantics, from RFC 1928/1929 and the handler's documented configuration: may
// this BYTE STREAM cause outbound activity?  (It is parsed independently of how the
// dialogue was composed: an unexpected sub-negotiation is simply read as the request.)
func permitted(sc *Scn, d *Dialogue) (bool, string) {
	b := d.Bytes()
	take := func(n int) ([]byte, bool) {
		if len(b) < n {
			return nil, false
		}
		r := b[:n]
		b = b[n:]
		return r, true
	}
	h, ok := take(2)
	if !ok {
		return false, "truncated greeting"
	}
	if h[0] != 5 {
		return false, "greeting version"
	}
	methods, ok := take(int(h[1]))
	if !ok {
		return false, "truncated method list"
	}
	has := func(m byte) bool {
		for _, x := range methods {
			if x == m {
				return true
			}
		}
		return false
	}
	if len(sc.Creds) > 0 {
		if !has(2) {
			return false, "username/password method not offered"
		}
		v, ok := take(2)
		if !ok {
			return false, "truncated sub-negotiation"
		}
		if v[0] != 1 {
			return false, "sub-negotiation version"
		}
		user, ok := take(int(v[1]))
		if !ok {
			return false, "truncated user name"
		}
		pl, ok := take(1)
		if !ok {
			return false, "truncated password length"
		}
		pass, ok := take(int(pl[0]))
		if !ok {
			return false, "truncated password"
		}
		want, known := sc.Creds[string(user)]
		if !known || len(user) == 0 || want != string(pass) {
			return false, "wrong credentials"
		}
	} else if !has(0) {
		return false, "no-auth method not offered"
	}
	r, ok := take(4)
	if !ok {
		return false, "truncated request"
	}
	if r[0] != 5 {
		return false, "request version"
	}
	enabled := map[byte]bool{}
	if len(sc.Commands) == 0 {
		enabled[1], enabled[3] = true, true
	}
	for _, c := range sc.Commands {
		enabled[map[string]byte{"CONNECT": 1, "BIND": 2, "ASSOCIATE": 3}[c]] = true
	}
	if !enabled[r[1]] {
		return false, "command not enabled"
	}
	switch r[3] {
	case 1:
		_, ok = take(4 + 2)
	case 4:
		_, ok = take(16 + 2)
	case 3:
		var l []byte
		if l, ok = take(1); ok {
			_, ok = take(int(l[0]) + 2)
		}
	default:
		return false, "address type"
	}
	if !ok {
		return false, "truncated address"
	}
	return true, ""
}

// servedCmd returns the command of the request as the byte stream presents it.
func servedCmd(sc *Scn, d *Dialogue) int {
	b := d.Bytes()
	if len(b) < 2 {
		return 0
	}
	i := 2 + int(b[1])
	if len(sc.Creds) > 0 && len(b) > i+1 {
		i += 2 + int(b[i+1])
		if len(b) > i {
			i += 1 + int(b[i])
		}
	}
	if len(b) > i+1 {
		return int(b[i+1])
	}
	return 0
}

type result struct {
	out     vsched.Outcome
	dials   []string
	listens []string
	reply   []byte
	err     string
}

var nop = zap.NewNop()

func execute(x *explore.Exec, sc *Scn, d *Dialogue) *result {
	res := &result{}
	layer4.VerifResetPools()
	res.out = vsched.Run(x, vsched.Options{Horizon: 20000}, func() {
		ctx, cancel := caddy.NewContext(caddy.Context{Context: context.Background()})
		defer cancel()
		nw := vnet.NewNet()
		vnet.Current = nw
		defer func() { vnet.Current = nil }()
		for _, a := range []string{"10.0.0.99:443", "127.0.0.1:443", "[::1]:443", "[2001:db8::99]:443"} {
			nw.Handle(a, func(client net.Addr) (net.Conn, error) {
				cEnd, sEnd := vnet.Pipe("px", "target", client, vnet.TCP("10.0.0.99", 443))
				vsched.GoNamed("target", func() { io.Copy(io.Discard, sEnd); sEnd.Close() })
				return cEnd, nil
			})
		}
		cfg, err := handlerConfig(sc)
		if err != nil {
			panic(err) // forms the parser rejects are filtered out in scenarios()
		}
		if _, _, env := rawConfig(sc); sc.Rotate {
			// the configuration before the rotation: same raw text, other values
			stale := map[string]string{"CONNECT": "ASSOCIATE", "ASSOCIATE": "BIND", "BIND": "CONNECT"}
			for k, v := range env {
				if strings.HasPrefix(k, "VERIF_C16_CMD") {
					os.Setenv(k, stale[v])
				} else {
					os.Setenv(k, "stale-"+v)
				}
			}
			old := &layer4.Server{}
			if err := json.Unmarshal(hm.J([]map[string]any{{"handle": []json.RawMessage{cfg}}}), &old.Routes); err != nil {
				panic(err)
			}
			if err := old.Provision(ctx, nop); err != nil {
				panic(fmt.Sprintf("provision (before rotation) %s: %v", hm.J(sc), err))
			}
			for k, v := range env {
				os.Setenv(k, v)
			}
		}
		srv := &layer4.Server{}
		if err := json.Unmarshal(hm.J([]map[string]any{{"handle": []json.RawMessage{cfg}}}), &srv.Routes); err != nil {
			panic(err)
		}
		if err := srv.Provision(ctx, nop); err != nil {
			panic(fmt.Sprintf("provision %s: %v", hm.J(sc), err))
		}
		cl, sv := vnet.Pipe("client", "server", vnet.TCP("192.0.2.9", 40000), vnet.TCP("10.0.0.1", 1080))
		vsched.GoNamed("handle", func() { layer4.VerifHandle(srv, sv) })
		vsched.GoNamed("client", func() {
			if b := d.Bytes(); len(b) > 0 {
				cl.Write(b)
			}
			vtime.Sleep(time.Second)
			cl.CloseWrite()
		})
		b, _ := io.ReadAll(cl)
		res.reply = b
		vtime.Sleep(5 * time.Second)
		res.dials = append(res.dials, nw.Dials...)
		res.listens = append(res.listens, nw.Listens...)
	})
	return res
}

func check(x *explore.Exec, sc *Scn, d *Dialogue, r *result) {
	desc := fmt.Sprintf("config%s commands=%v credentials=%v dialogue=%s (%x) -> reply %x, dials=%v listens=%v", map[string]string{"": "", "caddyfile": " (written as a Caddyfile block)"}[sc.Form], sc.Commands, sc.Creds, hm.J(d), d.Bytes(), r.reply, r.dials, r.listens)
	for _, p := range r.out.Panics {
		x.Fail("panic:"+p[strings.LastIndex(p, " at ")+4:], "a thread panicked: %s; %s", p, desc)
	}
	if r.out.Horizon {
		x.Fail("horizon", "step horizon exceeded; %s", desc)
		return
	}
	ok, why := permitted(sc, d)
	outbound := len(r.dials) > 0 || len(r.listens) > 0
	if outbound && !ok {
		x.Fail("outbound-for-refused-request:"+why, "the handler opened an outbound connection or listener for a request that must be refused (%s); %s", why, desc)
	}
	if ok && !outbound && servedCmd(sc, d) != 2 {
		x.Fail("permitted-request-not-served", "a permitted request caused no outbound activity (the check would be vacuous); %s", desc)
	}
	x.Observe(outbound, len(r.reply), ok)
}

func dialogues(sc *Scn, tier string, yield func(*Dialogue) bool) {
	methodSets := [][]int{{}, {0}, {2}, {0, 2}, {2, 0}, {1}, {255}}
	users := []string{"u", "x", ""}
	passes := []string{"p", "q", ""}
	for u := range sc.Creds {
		users = append(users, u)
	}
	for _, p := range sc.Creds {
		passes = append(passes, p)
	}
	if sc.Dangling != "" {
		users, passes = append(users, sc.Dangling), append(passes, sc.Dangling)
	}
	users, passes = uniq(users), uniq(passes)
	for _, gver := range []int{5, 4} {
		for _, ms := range methodSets {
			auths := []Dialogue{{Auth: false}}
			for _, aver := range []int{1, 5} {
				for _, u := range users {
					for _, p := range passes {
						auths = append(auths, Dialogue{Auth: true, AVer: aver, User: u, Pass: p})
					}
				}
				// the bytes of a configured pair split between the two fields at every other place
				for u, p := range sc.Creds {
					w := u + p
					for k := 0; k <= len(w) && len(w) > 2; k++ {
						if k != len(u) {
							auths = append(auths, Dialogue{Auth: true, AVer: aver, User: w[:k], Pass: w[k:]})
						}
					}
				}
			}
			for _, a := range auths {
				if gver == 4 && (len(ms) > 1 || a.Auth) {
					continue
				}
				for _, rver := range []int{5, 4} {
					for _, cmd := range []int{1, 2, 3, 0, 4, 255} {
						for _, atyp := range []int{1, 3, 4, 5} {
							d := a
							d.GVer, d.Methods, d.RVer, d.Cmd, d.Atyp, d.Trunc = gver, ms, rver, cmd, atyp, -1
							if !yield(&d) {
								return
							}
						}
					}
				}
			}
		}
	}
	// every truncation of a fully permitted dialogue
	for _, cmd := range []int{1, 3} {
		d := Dialogue{GVer: 5, Methods: []int{0}, RVer: 5, Cmd: cmd, Atyp: 1, Trunc: -1}
		if len(sc.Creds) > 0 {
			for u, p := range sc.Creds {
				if u != "" {
					d.Methods, d.Auth, d.AVer, d.User, d.Pass = []int{2}, true, 1, u, p
				}
			}
		}
		n := len(d.Bytes())
		for t := 0; t < n; t++ {
			dd := d
			dd.Trunc = t
			if !yield(&dd) {
				return
			}
		}
	}
}

func uniq(a []string) []string {
	m := map[string]bool{}
	var out []string
	for _, s := range a {
		if !m[s] {
			m[s] = true
			out = append(out, s)
		}
	}
	sort.Strings(out)
	return out
}

func scenarios(tier string, yield func(any) bool) {
	cmdSets := [][]string{nil, {"CONNECT"}, {"ASSOCIATE"}, {"BIND"}, {"CONNECT", "ASSOCIATE"}, {"CONNECT", "BIND"}, {"ASSOCIATE", "BIND"}, {"CONNECT", "ASSOCIATE", "BIND"}}
	creds := []map[string]string{nil, {"u": "p"}, {"u": "p", "v": "q"}, {"": "x"}, {"u": ""}, {"al": "ice"}}
	for _, cs := range cmdSets {
		for _, cr := range creds {
			if !yield(&Scn{Commands: cs, Creds: cr}) {
				return
			}
			if len(cs)+len(cr) > 0 && len(cs) <= 1 {
				if !yield(&Scn{Commands: cs, Creds: cr, Rotate: true}) {
					return
				}
			}
			if len(cr) > 0 && len(cs) <= 1 {
				if !yield(&Scn{Commands: cs, Creds: cr, EmptyName: true}) {
					return
				}
			}
			if len(cr) > 0 && len(cs) <= 1 {
				dg := &Scn{Commands: cs, Creds: cr, Form: "caddyfile", Dangling: "bob"}
				if _, err := handlerConfig(dg); err == nil { // (refusing the block is the right answer)
					if !yield(dg) {
						return
					}
				}
			}
			cf := &Scn{Commands: cs, Creds: cr, Form: "caddyfile"}
			if len(cs)+len(cr) == 0 {
				continue // nothing to write
			}
			if _, err := handlerConfig(cf); err != nil {
				continue // the Caddyfile parser refuses this form (and says so)
			}
			if !yield(cf) {
				return
			}
		}
	}
}

func main() {
	runner.Main(&runner.Harness{
		ID:          "C16",
		Level:       "model_checking",
		Rule:        "the handler configured in JSON and through the equivalent Caddyfile block (its UnmarshalCaddyfile) x all 8 command subsets x credential maps {none, one pair, two pairs, empty user name, empty password} x client dialogues from a grammar: greeting (version 5/4, 7 method lists), optional username/password sub-negotiation (version 1/5, right/wrong/empty user and password), request (version 5/4, command 0..4 and 255, address type 1/3/4/5) and every truncation of a permitted dialogue; the real handler and go-socks5 run under the scheduler, every net.Dial / net.ListenUDP of the library lands in the virtual network, which records it; states = distinct (configuration, dialogue) pairs; credential pairs whose bytes are split between user and password at every other place; an account whose name is an unset placeholder; a Caddyfile credentials line with a dangling user name (must be refused, or the name is nobody's account)",
		Assumptions: []string{"one schedule per dialogue (the property quantifies over inputs and configurations); placeholders: configurations with at most one command are also provisioned with {env.*} placeholders for the command and the passwords, after a handler with the same raw configuration was provisioned under other values; the DNS lookup go-socks5 performs for domain addresses before consulting the rules is not counted as a connection"},
		Scenarios:   scenarios,
		Run: func(tier string, scAny any, rep *runner.Report) {
			sc := scAny.(*Scn)
			rep.Scenarios++
			vsched.StateSink = nil
			dialogues(sc, tier, func(d *Dialogue) bool {
				ex := explore.New(explore.DefaultBounds(0))
				ex.Explore(func(x *explore.Exec) { check(x, sc, d, execute(x, sc, d)) })
				one := *sc
				one.D = d
				rep.Executions += ex.Stats.Executions
				rep.Transitions += ex.Stats.Transitions
				rep.States++
				for h := range ex.Stats.Outcomes {
					rep.Outcome(h ^ uint64(d.Cmd)<<8 ^ uint64(len(d.Methods)))
				}
				if ok, _ := permitted(sc, d); ok {
					rep.Nontrivial++
				}
				for _, f := range ex.Stats.Failures {
					rep.Fail(&one, f.Sig, f.Msg, f.Choices)
				}
				return !rep.Expired()
			})
		},
		DecodeScenario: func(raw json.RawMessage) (any, error) {
			sc := &Scn{}
			return sc, json.Unmarshal(raw, sc)
		},
		Replay: func(scAny any, choices []int) []explore.Failure {
			sc := scAny.(*Scn)
			ex := explore.New(explore.DefaultBounds(0))
			return ex.RunOnce(choices, func(x *explore.Exec) { check(x, sc, sc.D, execute(x, sc, sc.D)) }).Failures
		},
		Budget: func(tier string) time.Duration {
			if tier == "thorough" {
				return 20 * time.Minute
			}
			return 120 * time.Second
		},
	})
	_ = hex.EncodeToString
}
