//go:build verif

// C08: concurrent connections never interfere: no cross-talk, no data races.
// Two or three connections carrying distinguishable streams go through SHARED provisioned
// routes under the controlled scheduler.  Plain build: every consumer must read exactly its
// own stream and get the verdict it gets alone.  -race build (race-invisible hand-off): on
// every explored schedule the Go race detector judges the program's own happens-before
// relation; reports whose two accesses are in repository code are violations.
package main

import (
	"bufio"
	"bytes"
	"context"
	"encoding/json"
	"fmt"
	"io"
	"net"
	"os"
	"path/filepath"
	"regexp"
	"sort"
	"strings"
	"time"

	"github.com/caddyserver/caddy/v2"
	"go.uber.org/zap"

	"github.com/mholt/caddy-l4/layer4"
	"github.com/mholt/caddy-l4/modules/l4proxy"

	"verif/mc/explore"
	"verif/mc/hm"
	"verif/mc/mrun"
	"verif/mc/runner"
	"verif/mc/vnet"
	"verif/mc/vsched"
	"verif/mc/vtime"
)

type Scn struct {
	Kind   string     `json:"kind"` // matcher | server | proxy | throttle | tee | listener
	Spec   *mrun.Spec `json:"spec,omitempty"`
	Policy string     `json:"policy,omitempty"`
	Conns  int        `json:"conns"`
	Seeds  []int      `json:"seeds,omitempty"` // indexes into mrun.Seeds(spec): the message each connection carries
}

// per-connection results, written without any shared lock (no extra happens-before edges)
type own struct {
	ran  bool
	data []byte
}

var Own [8]*own

type OwnRec struct{}

func (*OwnRec) CaddyModule() caddy.ModuleInfo {
	return caddy.ModuleInfo{ID: "layer4.handlers.h_own", New: func() caddy.Module { return new(OwnRec) }}
}

func connIndex(a net.Addr) int {
	s := a.String()
	return int(s[len(s)-1]-'0') % len(Own)
}

func (*OwnRec) Handle(cx *layer4.Connection, _ layer4.Handler) error {
	o := Own[connIndex(cx.RemoteAddr())]
	o.ran = true
	// a real handler does other things before it reads what was buffered for it (the proxy
	// dials first): a scheduling point between being matched and the first read
	vsched.Point("h_own")
	buf := make([]byte, 300)
	for {
		n, err := cx.Read(buf)
		o.data = append(o.data, buf[:n]...)
		if err != nil {
			return nil
		}
	}
}

func init() { caddy.RegisterModule(&OwnRec{}) }

func streamFor(sc *Scn, i int) []byte {
	if sc.Kind == "matcher" {
		seeds := mrun.Seeds(*sc.Spec)
		if len(seeds) == 0 {
			return []byte(fmt.Sprintf("conn-%d-hello", i))
		}
		// connections carry different messages the matcher accepts, where such exist
		k := (len(seeds) - 1) * i / max(1, sc.Conns-1) % len(seeds)
		if i < len(sc.Seeds) {
			k = sc.Seeds[i]
		}
		s := seeds[k]
		return append([]byte(nil), s...) // (no trailer: several protocols reject trailing bytes)
	}
	p := []byte(fmt.Sprintf("stream-%d:", i))
	if sc.Kind == "wrap" {
		// (the declared source keeps the connection's own port: the harness tells connections
		// apart by their remote port)
		p = append([]byte(fmt.Sprintf("PROXY TCP4 198.51.100.1 203.0.113.2 %d 2222\r\n", 4000+i)), p...)
		// long enough for the first route's matcher (which wants more than three chunks): the
		// parent connection's buffer is then full when the handler wraps it, and the wrapped
		// connection prefetches through pooled scratch chunks
		for j := 0; len(p) < 9000; j++ {
			p = append(p, byte('A'+(i*3+j)%23))
		}
	}
	for j := 0; j < 40+7*i; j++ {
		p = append(p, byte('a'+(i*5+j)%26))
	}
	return p
}

type result struct {
	out      vsched.Outcome
	own      [8]own
	accepted map[int][]byte
	upGot    map[string][]byte
	dials    []string
}

func routesFor(sc *Scn) []map[string]any {
	switch sc.Kind {
	case "matcher":
		var cfg any
		json.Unmarshal(sc.Spec.Config, &cfg)
		return []map[string]any{{"match": []map[string]any{{sc.Spec.Module: cfg}}, "handle": []map[string]any{{"handler": "h_own"}}}}
	case "server":
		return []map[string]any{{"match": []map[string]any{{"h_need": map[string]any{"k": 3, "mode": "full"}}}, "handle": []map[string]any{{"handler": "h_own"}}}}
	case "proxy":
		return []map[string]any{{"handle": []map[string]any{{"handler": "proxy",
			"upstreams":      []map[string]any{{"dial": []string{"10.0.0.10:80"}}, {"dial": []string{"10.0.0.11:80"}}},
			"load_balancing": map[string]any{"selection": map[string]any{"policy": sc.Policy}},
			"health_checks":  map[string]any{"passive": map[string]any{"fail_duration": "1s", "max_fails": 2}}}}}}
	case "wrap":
		// the shipped proxy_protocol handler strips a header and continues on a wrapped
		// connection (Connection.Wrap), which a later route then matches on again: the
		// wrapped connection's matching buffer comes from the shared pool
		return []map[string]any{
			{"match": []map[string]any{{"h_need": map[string]any{"k": 6200, "mode": "peek"}}}, "handle": []map[string]any{{"handler": "proxy_protocol"}}},
			{"match": []map[string]any{{"h_need": map[string]any{"k": 3, "pat": "str", "mode": "full"}}}, "handle": []map[string]any{{"handler": "h_own"}}}}
	case "subroute":
		// every connection falls through the shared subroute handler (its only route wants a
		// first byte 'S', the streams start with 's') and continues with the route after it
		return []map[string]any{
			{"handle": []map[string]any{{"handler": "subroute", "routes": []map[string]any{
				{"match": []map[string]any{{"h_need": map[string]any{"k": 1, "pat": "S"}}}, "handle": []map[string]any{{"handler": "h_own"}}}}}}},
			{"match": []map[string]any{{"h_need": map[string]any{"k": 3, "mode": "full"}}}, "handle": []map[string]any{{"handler": "h_own"}}}}
	case "throttle":
		return []map[string]any{{"handle": []map[string]any{{"handler": "throttle", "total_read_bytes_per_second": 1e9, "total_read_burst_size": 1 << 20, "read_bytes_per_second": 1e9, "read_burst_size": 1 << 20}, {"handler": "h_own"}}}}
	case "tee":
		return []map[string]any{{"match": []map[string]any{{"h_need": map[string]any{"k": 2, "mode": "peek"}}}, "handle": []map[string]any{{"handler": "tee", "branch": []map[string]any{{"handler": "h_rec", "id": "branch", "buf": 64}}}, {"handler": "h_own"}}}}
	}
	panic(sc.Kind)
}

func execute(x *explore.Exec, sc *Scn, solo int) *result {
	res := &result{accepted: map[int][]byte{}, upGot: map[string][]byte{}}
	for i := range Own {
		Own[i] = &own{}
	}
	hm.Global = &hm.Trace{}
	layer4.VerifResetPools()
	var trace func(string)
	if os.Getenv("VERIF_TRACE") != "" {
		trace = func(l string) { fmt.Println("  |", l) }
	}
	res.out = vsched.Run(x, vsched.Options{Horizon: 60000, Trace: trace}, func() {
		ctx, cancel := caddy.NewContext(caddy.Context{Context: context.Background()})
		defer cancel()
		nw := vnet.NewNet()
		vnet.Current = nw
		defer func() { vnet.Current = nil }()
		for _, a := range []string{"10.0.0.10:80", "10.0.0.11:80"} {
			a := a
			nw.Handle(a, func(client net.Addr) (net.Conn, error) {
				cEnd, sEnd := vnet.Pipe("px-"+a, "up-"+a, client, vnet.TCP("10.0.0.10", 80))
				vsched.GoNamed("upstream", func() {
					b, _ := io.ReadAll(sEnd)
					res.upGot[a+"/"+client.String()] = b
					sEnd.Close()
				})
				return cEnd, nil
			})
		}
		mk := func(i int) (*vnet.Conn, *vnet.Conn) {
			if sc.Spec != nil && sc.Spec.UDP {
				return vnet.Pipe(fmt.Sprintf("c%d", i), fmt.Sprintf("s%d", i), vnet.UDP("192.0.2.9", 4000+i), vnet.UDP("10.0.0.1", 53))
			}
			return vnet.Pipe(fmt.Sprintf("c%d", i), fmt.Sprintf("s%d", i), vnet.TCP("192.0.2.9", 4000+i), vnet.TCP("10.0.0.1", 443))
		}
		if sc.Kind == "listener" {
			lw := &layer4.ListenerWrapper{}
			json.Unmarshal([]byte(`[{"match":[{"h_need":{"k":3,"pat":"zzz"}}],"handle":[{"handler":"h_own"}]}]`), &lw.Routes)
			if err := lw.Provision(ctx); err != nil {
				panic(err)
			}
			inner := vnet.NewListener(vnet.TCP("10.0.0.1", 443))
			ln := lw.WrapListener(inner)
			vsched.GoNamed("consumer", func() {
				for {
					c, err := ln.Accept()
					if err != nil {
						return
					}
					b, _ := io.ReadAll(c)
					res.accepted[connIndex(c.RemoteAddr())] = b
					c.Close()
				}
			})
			for i := 0; i < sc.Conns; i++ {
				if solo >= 0 && i != solo {
					continue
				}
				cl, sv := mk(i)
				cl.Write(streamFor(sc, i))
				cl.CloseWrite()
				inner.Inject(sv)
			}
			vtime.Sleep(5 * time.Second)
			ln.Close()
			return
		}
		srv := &layer4.Server{}
		if err := json.Unmarshal(hm.J(routesFor(sc)), &srv.Routes); err != nil {
			panic(err)
		}
		if err := srv.Provision(ctx, zap.NewNop()); err != nil {
			panic(fmt.Sprintf("provision %s: %v", hm.J(sc), err))
		}
		for i := 0; i < sc.Conns; i++ {
			if solo >= 0 && i != solo {
				continue
			}
			cl, sv := mk(i)
			sv.Menu = hm.StdMenu(1)
			s := streamFor(sc, i)
			vsched.GoNamed(fmt.Sprintf("handle%d", i), func() { layer4.VerifHandle(srv, sv) })
			vsched.GoNamed(fmt.Sprintf("client%d", i), func() {
				cl.Write(s)
				cl.CloseWrite()
				io.Copy(io.Discard, cl)
			})
		}
		vtime.Sleep(10 * time.Second)
		res.dials = append(res.dials, nw.Dials...)
	})
	for i := range Own {
		res.own[i] = *Own[i]
	}
	l4proxy.VerifResetPeers()
	return res
}

// solo runs are cached per scenario: what each connection gets when it is alone
var soloCache = map[string][]own{}

func soloOf(sc *Scn) []own {
	key := string(hm.J(sc))
	if v, ok := soloCache[key]; ok {
		return v
	}
	var out []own
	for i := 0; i < sc.Conns; i++ {
		ex := explore.New(explore.DefaultBounds(0))
		var r *result
		ex.RunOnce(nil, func(x *explore.Exec) { r = execute(x, sc, i) })
		o := r.own[connIndex(vnet.TCP("192.0.2.9", 4000+i))]
		if sc.Kind == "listener" {
			o = own{ran: true, data: r.accepted[i]}
		}
		out = append(out, o)
	}
	soloCache[key] = out
	return out
}

func check(x *explore.Exec, sc *Scn, r *result) {
	desc := func() string {
		var sb strings.Builder
		for i := 0; i < sc.Conns; i++ {
			fmt.Fprintf(&sb, "conn%d ran=%v read %d bytes; ", i, r.own[i].ran, len(r.own[i].data))
		}
		return fmt.Sprintf("scenario=%s %sdials=%v blocked=%v", hm.J(sc), sb.String(), r.dials, r.out.Blocked)
	}
	for _, p := range r.out.Panics {
		x.Fail("panic:"+p[strings.LastIndex(p, " at ")+4:], "a thread panicked: %s; %s", p, desc())
	}
	if r.out.Horizon {
		x.Fail("horizon", "step horizon exceeded; %s", desc())
		return
	}
	solo := soloOf(sc)
	for i := 0; i < sc.Conns; i++ {
		got := r.own[i]
		if sc.Kind == "listener" {
			got = own{ran: true, data: r.accepted[i]}
		}
		want := solo[i]
		if sc.Kind == "proxy" {
			// what the connection's upstream received must be exactly its own stream
			n := 0
			for k, b := range r.upGot {
				if strings.HasSuffix(k, fmt.Sprintf("/%s", "x")) {
					_ = b
				}
				n++
			}
			continue
		}
		if got.ran != want.ran {
			x.Fail("verdict-differs:"+sc.Kind+kindOf(sc), "connection %d alone is handled=%v, next to another connection handled=%v; %s", i, want.ran, got.ran, desc())
		}
		if string(got.data) != string(want.data) {
			x.Fail("cross-talk:"+sc.Kind+kindOf(sc), "connection %d alone reads %q, next to another connection it reads %q; %s", i, clip(want.data), clip(got.data), desc())
		}
	}
	if sc.Kind == "proxy" {
		streams := map[string]bool{}
		for i := 0; i < sc.Conns; i++ {
			streams[string(streamFor(sc, i))] = true
		}
		for k, b := range r.upGot {
			if !streams[string(b)] {
				x.Fail("cross-talk:proxy", "upstream connection %s received %q, which is no client's stream; %s", k, clip(b), desc())
			}
		}
		if len(r.upGot) != sc.Conns {
			x.Fail("proxy-connection-count", "%d upstream connections for %d clients; %s", len(r.upGot), sc.Conns, desc())
		}
		if sc.Policy == "round_robin" && len(r.upGot) == sc.Conns {
			// simultaneous selections are still a rotation: k selections over m available
			// upstreams are k consecutive positions of the cycle, whatever the interleaving
			per := map[string]int{"10.0.0.10:80": 0, "10.0.0.11:80": 0}
			for k := range r.upGot {
				per[k[:12]]++
			}
			lo, hi := sc.Conns, 0
			for _, n := range per {
				lo, hi = min(lo, n), max(hi, n)
			}
			if hi-lo > 1 {
				x.Fail("round-robin-not-a-rotation", "%d simultaneous connections through round_robin over 2 available upstreams were distributed %v (a selection was lost between two connections); %s", sc.Conns, per, desc())
			}
		}
	}
	var ks []string
	for k := range r.upGot {
		ks = append(ks, k[:12])
	}
	sort.Strings(ks)
	x.Observe(ks, r.own[0].ran, r.own[1].ran, len(r.own[0].data), len(r.own[1].data))
}

func kindOf(sc *Scn) string {
	if sc.Spec != nil {
		return ":" + sc.Spec.Module
	}
	return ""
}

func clip(b []byte) string {
	if len(b) > 48 {
		return string(b[:48]) + "..."
	}
	return string(b)
}

// pooled: 2-3 connections take their matching buffers from the pool the way Server.handle does
// and are prefetched three times each, in every order (no scheduler involved: the order is an
// enumerated input).  After every step each connection's matching bytes are a prefix of its own
// stream - whatever the pool's allocator does when several buffers are handed out in a row.
func pooled(x *explore.Exec, sc *Scn) {
	layer4.VerifResetPools()
	n := sc.Conns
	streams := make([][]byte, n)
	cxs := make([]*layer4.Connection, n)
	left := make([]int, n)
	for i := range cxs {
		st := make([]byte, 6000)
		for j := range st {
			st[j] = byte('A'+i) + byte(j%13)*16
		}
		streams[i] = st
		c := hm.NewSConn(nil, st, true)
		c.Menu = func(max int) []int { return []int{max} }
		cxs[i] = layer4.WrapConnection(c, layer4.VerifPooledBuf(), mrun.Nop)
		left[i] = 3
	}
	var order []int
	for {
		var live []int
		for i, l := range left {
			if l > 0 {
				live = append(live, i)
			}
		}
		if len(live) == 0 {
			break
		}
		i := live[x.Choose(explore.KInput, len(live))]
		left[i]--
		order = append(order, i)
		layer4.VerifPrefetch(cxs[i])
		for j, cx := range cxs {
			if mb := cx.MatchingBytes(); len(mb) > len(streams[j]) || !bytes.Equal(mb, streams[j][:len(mb)]) {
				x.Fail("cross-talk:pooled", "after prefetching connections in the order %v, connection %d's matching buffer holds %d bytes that are not a prefix of its own stream (first difference at %d)", order, j, len(mb), firstDiffB(mb, streams[j]))
				return
			}
		}
	}
	x.Observe(len(order))
}

func firstDiffB(a, b []byte) int {
	n := min(len(a), len(b))
	for i := 0; i < n; i++ {
		if a[i] != b[i] {
			return i
		}
	}
	return n
}

func scenarios(tier string, yield0 func(any) bool) {
	yield := func(sc *Scn) bool {
		if only := os.Getenv("VERIF_ONLY"); only != "" && !strings.Contains(string(hm.J(sc)), only) {
			return true
		}
		return yield0(sc)
	}
	for _, k := range []string{"server", "subroute", "wrap", "throttle", "tee", "listener"} {
		for _, n := range []int{2, 3} {
			if n == 3 && tier != "thorough" && k != "server" {
				continue
			}
			if !yield(&Scn{Kind: k, Conns: n}) {
				return
			}
		}
	}
	for _, n := range []int{2, 3} {
		if !yield(&Scn{Kind: "pooled", Conns: n}) {
			return
		}
	}
	for _, p := range []string{"round_robin", "least_conn", "random", "random_choose", "first", "ip_hash"} {
		if !yield(&Scn{Kind: "proxy", Policy: p, Conns: 2}) {
			return
		}
	}
	for _, sp := range mrun.Specs() {
		if sp.Module == "quic" {
			continue // runs real goroutines and real-time waits inside quic-go: not schedulable
		}
		sp := sp
		if !yield(&Scn{Kind: "matcher", Spec: &sp, Conns: 2, Seeds: yesSeeds(sp)}) {
			return
		}
	}
}

// yesSeeds picks two different seed messages that the matcher accepts when evaluated alone
// (the longest and the shortest such), so that concurrent connections exercise the
// matcher's success paths, where shared state is most likely to be written.
func yesSeeds(sp mrun.Spec) []int {
	l, err := mrun.Load(sp)
	if err != nil {
		return nil
	}
	defer l.Close()
	var yes []int
	for i, sd := range mrun.Seeds(sp) {
		cx, _ := mrun.Conn(sd, sp.UDP)
		if l.Eval(cx).V == "yes" {
			yes = append(yes, i)
		}
	}
	if len(yes) < 2 {
		return nil
	}
	return []int{yes[0], yes[len(yes)-1]}
}

func bounds(tier string) (explore.Bounds, int) {
	b := explore.DefaultBounds(1)
	b[explore.KSched] = 3
	b[explore.KTime] = 0
	if vsched.RaceMode {
		if tier == "thorough" {
			return b, 2
		}
		return b, 1
	}
	if tier == "thorough" {
		return b, 3
	}
	return b, 2
}

// ---- race report parsing (parent process, after all shards have finished) ------------------

var frameRe = regexp.MustCompile(`^\s+(\S+)\(\)\s*$`)

func postProcess(rep *runner.Report, work string) {
	if !vsched.RaceMode {
		return
	}
	files, _ := filepath.Glob(filepath.Join(work, "race.*"))
	seen := map[string]bool{}
	intra := map[string]bool{}
	nReports := 0
	for _, f := range files {
		fh, err := os.Open(f)
		if err != nil {
			continue
		}
		sc := bufio.NewScanner(fh)
		sc.Buffer(make([]byte, 1<<20), 1<<20)
		var block []string
		flush := func() {
			if len(block) == 0 {
				return
			}
			nReports++
			a, b := accessFrames(block)
			if a != "" && b != "" {
				pair := []string{a, b}
				sort.Strings(pair)
				key := pair[0] + " <-> " + pair[1]
				if !seen[key] {
					seen[key] = true
					rep.Fail(map[string]string{"race": key}, "data-race:"+key, "the race detector reports conflicting unsynchronised accesses in repository code: "+key+"\n"+strings.Join(block[:min(len(block), 40)], "\n"), nil)
				}
			}
			block = nil
		}
		for sc.Scan() {
			l := sc.Text()
			if strings.HasPrefix(l, "WARNING: DATA RACE") {
				flush()
				block = []string{l}
			} else if strings.HasPrefix(l, "==================") {
				flush()
			} else if block != nil {
				block = append(block, l)
			}
		}
		flush()
		fh.Close()
	}
	rep.Count("race_reports_total", int64(nReports))
	rep.Count("race_reports_in_repository_code", int64(len(seen)))
	_ = intra
}

// accessFrames returns, for the two accesses of a race report, the innermost frame that lies
// in the repository (empty when an access has no such frame or it is harness/shim code).
func accessFrames(block []string) (string, string) {
	var sections [][]string
	var cur []string
	for _, l := range block {
		t := strings.TrimSpace(l)
		switch {
		case strings.HasPrefix(t, "Read at"), strings.HasPrefix(t, "Write at"), strings.HasPrefix(t, "Previous read at"), strings.HasPrefix(t, "Previous write at"),
			strings.HasPrefix(t, "Atomic"), strings.HasPrefix(t, "Previous atomic"):
			if cur != nil {
				sections = append(sections, cur)
			}
			cur = []string{}
		case strings.HasPrefix(t, "Goroutine"):
			if cur != nil {
				sections = append(sections, cur)
			}
			cur = nil
		default:
			if cur != nil {
				cur = append(cur, l)
			}
		}
	}
	if cur != nil {
		sections = append(sections, cur)
	}
	pick := func(sec []string) string {
		for _, l := range sec {
			m := frameRe.FindStringSubmatch(l)
			if m == nil {
				continue
			}
			fn := m[1]
			if strings.HasPrefix(fn, "runtime.") || strings.HasPrefix(fn, "sync.") || strings.HasPrefix(fn, "sync/atomic.") || strings.HasPrefix(fn, "internal/") {
				continue
			}
			if strings.HasPrefix(fn, "github.com/mholt/caddy-l4/") && !strings.Contains(fn, ".Verif") {
				return strings.TrimPrefix(fn, "github.com/mholt/caddy-l4/")
			}
			return "" // innermost program frame is shim/harness/library code
		}
		return ""
	}
	if len(sections) < 2 {
		return "", ""
	}
	return pick(sections[0]), pick(sections[1])
}

func main() {
	mode := "plain build: cross-talk / verdict differential"
	if vsched.RaceMode {
		mode = "-race build with race-invisible hand-off: data races on every explored schedule"
	}
	runner.Main(&runner.Harness{
		ID:    "C08",
		Level: "model_checking",
		Rule:  "2-3 concurrent connections with distinguishable streams through SHARED provisioned routes: Server.handle with a prefetching matcher, a subroute every connection falls through, PROXY-header stripping (Connection.Wrap) followed by further matching, throttle with a total limiter, tee, the listener wrapper, the proxy with each of the 6 selection policies and shared peers, and every shipped matcher configuration (2 connections carrying that protocol's messages); deterministic LIFO buffer pool; every interleaving within the delay budget; scheduler-free scenario pooled: 2-3 connections on matching buffers taken from the pool, three prefetches each in every order, each buffer stays a prefix of its own stream; " + mode,
		Assumptions: []string{
			"sequential consistency for the cross-talk part; weak-memory effects are represented by the race detector's verdicts",
			"race reports are attributed by the innermost non-runtime frame of both accesses; only pairs inside github.com/mholt/caddy-l4 count",
			"the QUIC matcher is excluded (quic-go runs its own goroutines and real-time waits)",
		},
		Scenarios: scenarios,
		Run: func(tier string, scAny any, rep *runner.Report) {
			sc := scAny.(*Scn)
			b, tot := bounds(tier)
			ex := explore.New(b)
			ex.Total = tot
			ex.Stop = rep.Expired
			vsched.StateSink = rep.State
			if sc.Kind == "pooled" {
				ex.Explore(func(x *explore.Exec) { pooled(x, sc) })
			} else {
				ex.Explore(func(x *explore.Exec) { check(x, sc, execute(x, sc, -1)) })
			}
			rep.AddStats(sc, &ex.Stats)
		},
		PostProcess: postProcess,
		DecodeScenario: func(raw json.RawMessage) (any, error) {
			sc := &Scn{}
			return sc, json.Unmarshal(raw, sc)
		},
		Replay: func(scAny any, choices []int) []explore.Failure {
			sc := scAny.(*Scn)
			if sc.Kind == "" {
				return nil // race reports are not replayable by choice list
			}
			b, _ := bounds("thorough")
			ex := explore.New(b)
			if sc.Kind == "pooled" {
				return ex.RunOnce(choices, func(x *explore.Exec) { pooled(x, sc) }).Failures
			}
			return ex.RunOnce(choices, func(x *explore.Exec) { check(x, sc, execute(x, sc, -1)) }).Failures
		},
		Budget: func(tier string) time.Duration {
			if tier == "thorough" {
				return 25 * time.Minute
			}
			return 120 * time.Second
		},
		ProcsPerWorker: 2,
	})
}
