//go:build verif

// C18: wire-message codecs (OpenVPN, WireGuard, Winbox, RDP) are exact inverses.
// Bounded-exhaustive enumeration of byte strings around each message's size bounds
// (patterns, the modules' own test vectors, single-position substitutions), through the
// exported FromBytes/ToBytes (FromChunks/ToChunks) functions.
package main

import (
	"bytes"
	"encoding/hex"
	"encoding/json"
	"fmt"
	"path/filepath"
	"reflect"
	"runtime/debug"
	"strings"
	"time"

	"github.com/mholt/caddy-l4/modules/l4openvpn"
	"github.com/mholt/caddy-l4/modules/l4rdp"
	"github.com/mholt/caddy-l4/modules/l4winbox"
	"github.com/mholt/caddy-l4/modules/l4wireguard"

	"verif/mc/enum"
	"verif/mc/explore"
	"verif/mc/mrun"
	"verif/mc/runner"
)

type codec struct {
	name  string
	pkg   string
	fixed int                       // exact wire size of a fixed-size message (0: variable)
	min   int                       // minimal size of a variable-size message
	dec   func([]byte) (any, error) // fresh message from bytes
	enc   func(any) ([]byte, error) // bytes from message
}

func noerr(f func() []byte) ([]byte, error) { return f(), nil }

var codecs = []codec{
	{"openvpn.MessageHeader", "l4openvpn", 1, 0,
		func(b []byte) (any, error) { m := &l4openvpn.MessageHeader{}; return m, m.FromBytes(b) },
		func(m any) ([]byte, error) { return m.(*l4openvpn.MessageHeader).ToBytes(), nil }},
	{"openvpn.MessagePlain", "l4openvpn", l4openvpn.MessagePlainBytesTotal, 0,
		func(b []byte) (any, error) { m := &l4openvpn.MessagePlain{}; return m, m.FromBytes(b) },
		func(m any) ([]byte, error) { return m.(*l4openvpn.MessagePlain).ToBytes(), nil }},
	{"openvpn.MessageAuth", "l4openvpn", 0, l4openvpn.MessageAuthBytesMin,
		func(b []byte) (any, error) { m := &l4openvpn.MessageAuth{}; return m, m.FromBytes(b) },
		func(m any) ([]byte, error) { return m.(*l4openvpn.MessageAuth).ToBytes(), nil }},
	{"openvpn.MessageCrypt", "l4openvpn", l4openvpn.MessageCryptBytesTotal, 0,
		func(b []byte) (any, error) { m := &l4openvpn.MessageCrypt{}; return m, m.FromBytes(b) },
		func(m any) ([]byte, error) { return m.(*l4openvpn.MessageCrypt).ToBytes(), nil }},
	{"openvpn.MessageCrypt2", "l4openvpn", 0, l4openvpn.MessageCrypt2BytesMin,
		func(b []byte) (any, error) { m := &l4openvpn.MessageCrypt2{}; return m, m.FromBytes(b) },
		func(m any) ([]byte, error) { return m.(*l4openvpn.MessageCrypt2).ToBytes(), nil }},
	{"openvpn.WrappedKey", "l4openvpn", 0, l4openvpn.WrappedKeyBytesMin,
		func(b []byte) (any, error) { m := &l4openvpn.WrappedKey{}; return m, m.FromBytes(b) },
		func(m any) ([]byte, error) { return m.(*l4openvpn.WrappedKey).ToBytes(), nil }},
	{"wireguard.MessageInitiation", "l4wireguard", l4wireguard.MessageInitiationBytesTotal, 0,
		func(b []byte) (any, error) { m := &l4wireguard.MessageInitiation{}; return m, m.FromBytes(b) },
		func(m any) ([]byte, error) { return m.(*l4wireguard.MessageInitiation).ToBytes() }},
	{"wireguard.MessageTransport", "l4wireguard", 0, 16,
		func(b []byte) (any, error) { m := &l4wireguard.MessageTransport{}; return m, m.FromBytes(b) },
		func(m any) ([]byte, error) { return m.(*l4wireguard.MessageTransport).ToBytes() }},
	{"winbox.MessageAuth", "l4winbox", 0, l4winbox.MessageAuthBytesMin,
		func(b []byte) (any, error) { m := &l4winbox.MessageAuth{}; return m, m.FromBytes(b) },
		func(m any) ([]byte, error) { return m.(*l4winbox.MessageAuth).ToBytes(), nil }},
	{"rdp.TPKTHeader", "l4rdp", int(l4rdp.TPKTHeaderBytesTotal), 0,
		func(b []byte) (any, error) { m := &l4rdp.TPKTHeader{}; return m, m.FromBytes(b) },
		func(m any) ([]byte, error) { return m.(*l4rdp.TPKTHeader).ToBytes() }},
	{"rdp.X224Crq", "l4rdp", int(l4rdp.X224CrqBytesTotal), 0,
		func(b []byte) (any, error) { m := &l4rdp.X224Crq{}; return m, m.FromBytes(b) },
		func(m any) ([]byte, error) { return m.(*l4rdp.X224Crq).ToBytes() }},
	{"rdp.RDPNegReq", "l4rdp", int(l4rdp.RDPNegReqBytesTotal), 0,
		func(b []byte) (any, error) { m := &l4rdp.RDPNegReq{}; return m, m.FromBytes(b) },
		func(m any) ([]byte, error) { return m.(*l4rdp.RDPNegReq).ToBytes() }},
	{"rdp.RDPCorrInfo", "l4rdp", int(l4rdp.RDPCorrInfoBytesTotal), 0,
		func(b []byte) (any, error) { m := &l4rdp.RDPCorrInfo{}; return m, m.FromBytes(b) },
		func(m any) ([]byte, error) { return m.(*l4rdp.RDPCorrInfo).ToBytes() }},
	{"rdp.RDPToken", "l4rdp", 0, int(l4rdp.RDPTokenBytesMin),
		func(b []byte) (any, error) { m := &l4rdp.RDPToken{}; return m, m.FromBytes(b) },
		func(m any) ([]byte, error) { return m.(*l4rdp.RDPToken).ToBytes() }},
}

type Scn struct {
	Codec string `json:"codec"`
	Input string `json:"input,omitempty"` // hex (replay)
}

func find(name string) *codec {
	for i := range codecs {
		if codecs[i].name == name {
			return &codecs[i]
		}
	}
	return nil
}

// one input: returns failures (sig, msg)
// lastMsg: the message parsed from the previous accepted input of each codec.  Serialising
// it again must not disturb bytes returned by an earlier ToBytes call.
var lastMsg = map[string]any{}

// mustAccept: inputs produced by an independent encoder that are well-formed by construction;
// the parser has to accept them.
var mustAccept = map[string]bool{}

func judge(c *codec, in []byte) (sig, msg string, accepted bool) {
	defer func() {
		if r := recover(); r != nil {
			st := string(debug.Stack())
			site := "?"
			lines := strings.Split(st, "\n")
			for i := 0; i+1 < len(lines); i++ {
				if strings.Contains(lines[i+1], "/repo/") {
					site = lines[i]
					if k := strings.LastIndex(site, "("); k > 0 {
						site = site[:k]
					}
					if k := strings.LastIndex(site, "/"); k >= 0 {
						site = site[k+1:]
					}
					break
				}
			}
			sig, msg = "panic:"+c.name+":"+site, fmt.Sprintf("%s panics on %d-byte input %x: %v at %s", c.name, len(in), in, r, site)
		}
	}()
	m, err := c.dec(append([]byte(nil), in...))
	if err != nil {
		if mustAccept[string(in)] {
			return "well-formed-message-rejected:" + c.name, fmt.Sprintf("%s.FromBytes rejects the well-formed %d-byte message %x: %v", c.name, len(in), in, err), false
		}
		return "", "", false
	}
	if c.fixed > 0 && len(in) != c.fixed {
		return "wrong-length-accepted:" + c.name, fmt.Sprintf("%s.FromBytes accepts %d bytes although the message is exactly %d bytes on the wire (input %x)", c.name, len(in), c.fixed, in), true
	}
	// variable-length messages whose length is determined by a field of known legal sizes: a
	// tls-auth hard reset is 22 bytes plus an HMAC of one of the digest sizes OpenVPN knows
	// (MD5 16, SHA-1/RIPEMD-160 20, the 224-bit family 28, 256-bit 32, MD5+SHA-1 36, 384-bit 48,
	// 512-bit 64); any other length is a wrong length, to be rejected
	if c.name == "openvpn.MessageAuth" {
		h := len(in) - (l4openvpn.MessageAuthBytesMin - 16)
		if !map[int]bool{16: true, 20: true, 28: true, 32: true, 36: true, 48: true, 64: true}[h] {
			return "wrong-length-accepted:" + c.name, fmt.Sprintf("%s.FromBytes accepts %d bytes, which leaves %d bytes for the HMAC - the size of no digest (input %x)", c.name, len(in), h, in), true
		}
	}
	out, err := c.enc(m)
	if err != nil {
		return "encode-error:" + c.name, fmt.Sprintf("%s: parsed %x but cannot serialise the result: %v", c.name, in, err), true
	}
	if !bytes.Equal(out, in) {
		return "decode-encode-differs:" + c.name, fmt.Sprintf("%s: FromBytes accepts %x (%d bytes) but ToBytes of the result gives %x (%d bytes)", c.name, in, len(in), out, len(out)), true
	}
	// and back again: the serialised message parses to an equal message
	m2, err := c.dec(out)
	if err != nil {
		return "reencode-rejected:" + c.name, fmt.Sprintf("%s: ToBytes output %x is rejected by FromBytes: %v", c.name, out, err), true
	}
	if !reflect.DeepEqual(normalize(m), normalize(m2)) {
		return "encode-decode-differs:" + c.name, fmt.Sprintf("%s: message %+v serialises to %x which parses to %+v", c.name, m, out, m2), true
	}
	// the bytes ToBytes returned belong to this message: serialising another message (the
	// previously accepted one) leaves them alone
	if prev, ok := lastMsg[c.name]; ok {
		snap := append([]byte(nil), out...)
		if other, err := c.enc(prev); err == nil && !bytes.Equal(out, snap) {
			lastMsg[c.name] = m
			return "serialised-bytes-overwritten:" + c.name, fmt.Sprintf("%s: ToBytes returned %x; after another message was serialised (to %x) the same slice reads %x", c.name, snap, other, out), true
		}
	}
	lastMsg[c.name] = m
	return "", "", true
}

// normalize makes nil and empty slices compare equal.
func normalize(m any) any {
	b, _ := json.Marshal(m)
	return string(b)
}

func inputs(c *codec, tier string, yield func([]byte) bool) {
	lo, hi := 0, c.fixed+3
	if c.fixed == 0 {
		hi = c.min + 40
		if tier == "thorough" {
			hi = c.min + 300
		}
	}
	if c.name == "winbox.MessageAuth" {
		hi = 520
	}
	if c.name == "openvpn.MessageAuth" && hi < l4openvpn.MessageAuthBytesMax+3 {
		hi = l4openvpn.MessageAuthBytesMax + 3 // up to and beyond the largest HMAC
	}
	pat := func(n int, k int) []byte {
		b := make([]byte, n)
		for i := range b {
			switch k {
			case 0:
			case 1:
				b[i] = 0xff
			case 2:
				b[i] = byte(i + 1)
			}
		}
		return b
	}
	seen := map[string]bool{}
	emit := func(b []byte) bool {
		if seen[string(b)] {
			return true
		}
		seen[string(b)] = true
		return yield(b)
	}
	for n := lo; n <= hi; n++ {
		for k := 0; k < 3; k++ {
			if !emit(pat(n, k)) {
				return
			}
		}
	}
	// well-formed Winbox messages from an independent encoder: every user-name length from 1
	// byte up to a body of two full chunks and beyond, plain and RoMON, both parities - the
	// chunk boundaries (body of exactly 255 / 510 bytes) are where the length arithmetic lives
	if c.name == "winbox.MessageAuth" {
		for n := 1; n <= 520; n++ {
			for _, romon := range []bool{false, true} {
				u := strings.Repeat("u", n)
				if romon {
					if n < 3 {
						continue
					}
					u = u[:n-2] + "+r"
				}
				for _, par := range []byte{0, 1} {
					b := mrun.WinboxAuth(u, par)
					base := n // length of the user name proper (a name of exactly 2 characters is not a valid name)
					if romon {
						base = n - 2
					}
					if base >= 3 && n <= 255 {
						mustAccept[string(b)] = true
					}
					if !emit(b) {
						return
					}
				}
			}
		}
	}
	// ... and public keys that contain the delimiter value at every position (and twice)
	if c.name == "winbox.MessageAuth" {
		for _, u := range []string{"toms", "andris+r", strings.Repeat("k", 221)} {
			for z := 0; z < 32; z++ {
				for _, z2 := range []int{-1, 31 - z} {
					key := make([]byte, 32)
					for i := range key {
						key[i] = byte(0x11 + i)
					}
					key[z] = 0
					if z2 >= 0 {
						key[z2] = 0
					}
					for _, par := range []byte{0, 1} {
						b := mrun.WinboxAuthKey(u, key, par)
						mustAccept[string(b)] = true
						if !emit(b) {
							return
						}
					}
				}
			}
		}
	}
	// OpenVPN wrapped client keys of every length the format allows (and one more either side),
	// alone and at the end of a tls-crypt-v2 hard reset: 32 bytes of HMAC, the encrypted part,
	// the total length in the last two bytes
	if c.name == "openvpn.WrappedKey" || c.name == "openvpn.MessageCrypt2" {
		for n := l4openvpn.WrappedKeyBytesMin - 1; n <= l4openvpn.WrappedKeyBytesMax+1; n++ {
			wk := make([]byte, n)
			for i := range wk {
				wk[i] = byte(0x30 + i%71)
			}
			wk[n-2], wk[n-1] = byte(n>>8), byte(n)
			b := wk
			if c.name == "openvpn.MessageCrypt2" {
				b = append([]byte{l4openvpn.OpcodeControlHardResetClientV3 << 3}, make([]byte, l4openvpn.MessageCryptBytesTotalHL)...)
				for i := 1; i < len(b); i++ {
					b[i] = byte(0x80 + i)
				}
				b = append(b, wk...)
			}
			if n >= l4openvpn.WrappedKeyBytesMin && n <= l4openvpn.WrappedKeyBytesMax {
				mustAccept[string(b)] = true
			}
			if !emit(b) {
				return
			}
		}
	}
	// the module's own test vectors and their systematic mutations
	alpha := enum.Alphabet(filepath.Join("/repo/modules", c.pkg), 14)
	for _, seed := range enum.CorpusFromTests(filepath.Join("/repo/modules", c.pkg)) {
		if len(seed) > 600 {
			continue
		}
		ok := true
		enum.Mutations(seed, alpha, func(b []byte) bool { ok = emit(b); return ok })
		if !ok {
			return
		}
	}
	// counter pattern with every single-position substitution around the size bounds
	for _, n := range []int{c.fixed, c.min, c.min + 1, c.min + 7} {
		if n <= 0 {
			continue
		}
		ok := true
		enum.Mutations(pat(n, 2), alpha, func(b []byte) bool { ok = emit(b); return ok })
		if !ok {
			return
		}
	}
}

func main() {
	runner.Main(&runner.Harness{
		ID:          "C18",
		Level:       "model_checking",
		Rule:        "for each exported wire-message type (OpenVPN header/plain/auth/crypt/crypt2/wrapped key, WireGuard initiation/transport, Winbox auth, RDP TPKT/X.224/token/negotiation request/correlation info): every length from 0 to size+3 (variable messages: min..min+40, thorough +300; Winbox up to 520) in three fill patterns, well-formed Winbox messages from an independent encoder for every user-name length 1..520 (plain and RoMON, both parities), every byte-slice literal of the module's tests with all prefixes, extensions and single-position substitutions, and the counter pattern at the size bounds with all single-position substitutions; oracle: accepted => ToBytes(FromBytes(b)) == b and FromBytes(ToBytes(m)) == m, the returned bytes are not disturbed by serialising another message afterwards, and messages from the independent Winbox encoder (user names of 3..200 bytes; public keys containing the delimiter value) are accepted; fixed-size messages reject every other length; no panic; states = distinct (type, input) pairs; OpenVPN wrapped keys of every length min-1..max+1 alone and inside a tls-crypt-v2 reset (must-accept), tls-auth resets must have an HMAC of a known digest size",
		Assumptions: []string{"equality of messages is structural (nil and empty slices equal)"},
		Scenarios: func(tier string, yield func(any) bool) {
			for _, c := range codecs {
				if !yield(&Scn{Codec: c.name}) {
					return
				}
			}
		},
		Run: func(tier string, scAny any, rep *runner.Report) {
			sc := scAny.(*Scn)
			c := find(sc.Codec)
			rep.Scenarios++
			delete(lastMsg, c.name)
			var seq runner.Seq // history = the previously accepted input of this codec
			inputs(c, tier, func(in []byte) bool {
				sig, msg, acc := judge(c, in)
				rep.Executions++
				rep.Transitions++
				rep.States++
				if acc {
					rep.Nontrivial++
				}
				rep.Outcome(uint64(len(in))<<8 | uint64(len(sig)&0xff) | uint64(len(sc.Codec))<<32)
				one := *sc
				one.Input = hex.EncodeToString(in)
				if sig != "" {
					seq.FailAfter(rep, &one, sig, msg, nil)
				}
				if acc {
					seq.Done(&one, nil)
				}
				return !rep.Expired()
			})
		},
		DecodeScenario: func(raw json.RawMessage) (any, error) {
			sc := &Scn{}
			return sc, json.Unmarshal(raw, sc)
		},
		Replay: func(scAny any, _ []int) []explore.Failure {
			sc := scAny.(*Scn)
			in, _ := hex.DecodeString(sc.Input)
			delete(lastMsg, sc.Codec)
			if len(mustAccept) == 0 { // a fresh process: enumerate the inputs once to know the well-formed ones
				inputs(find(sc.Codec), "thorough", func([]byte) bool { return true })
			}
			sig, msg, _ := judge(find(sc.Codec), in)
			if sig == "" {
				return nil
			}
			return []explore.Failure{{Sig: sig, Msg: msg}}
		},
		ReplayH: func(hist []runner.HistItem, scAny any, _ []int) []explore.Failure {
			sc := scAny.(*Scn)
			delete(lastMsg, sc.Codec)
			for _, it := range hist {
				hs := &Scn{}
				if json.Unmarshal(it.Scenario, hs) == nil {
					b, _ := hex.DecodeString(hs.Input)
					judge(find(hs.Codec), b)
				}
			}
			in, _ := hex.DecodeString(sc.Input)
			sig, msg, _ := judge(find(sc.Codec), in)
			if sig == "" {
				return nil
			}
			return []explore.Failure{{Sig: sig, Msg: msg}}
		},
		Budget: func(tier string) time.Duration { return 10 * time.Minute },
	})
}
