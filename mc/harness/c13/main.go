//go:build verif

// C13: the listener wrapper hands unconsumed connections over intact, exactly once.
// The real (rewritten) ListenerWrapper / listener loop, handle, Accept, Close and
// pipeConnection run under the controlled scheduler over a virtual listener.
package main

import (
	"context"
	"encoding/json"
	"errors"
	"fmt"
	"net"
	"os"
	"strings"
	"sync"
	"time"

	"github.com/caddyserver/caddy/v2"

	"crypto/tls"
	"io"

	"github.com/mholt/caddy-l4/layer4"
	_ "github.com/mholt/caddy-l4/modules/l4proxyprotocol"
	_ "github.com/mholt/caddy-l4/modules/l4throttle"

	"verif/mc/explore"
	"verif/mc/hm"
	"verif/mc/hm/htls"
	"verif/mc/runner"
	"verif/mc/vnet"
	"verif/mc/vsched"
	"verif/mc/vtime"
)

// Connection kinds (first byte of the stream):
//
//	T  matched by a terminal route (consumed by layer4)
//	F  falls through to the wrapped listener with its prefetched bytes unconsumed
//	G  like F, but a non-terminal route first consumes 2 bytes
//	W  like F, but a non-terminal route first strips a PROXY header with the shipped
//	   proxy_protocol handler, which continues on a wrapped connection (Connection.Wrap):
//	   the connection handed over is the wrapped one
//	S  a TLS client (crypto/tls over the virtual connection): a non-terminal route terminates
//	   TLS with the real l4tls handler, the plaintext matches no further route, and the
//	   connection handed over must read the plaintext and expose the TLS connection state
//	X  not a connection: the wrapped listener's Accept fails once with a transient error that is
//	   not a timeout (EMFILE ...); the wrapper goes on accepting
//	U  stays undecided: matching times out
//	E  a matcher fails with an error
type Scn struct {
	Conns    string `json:"conns"`    // e.g. "FTF"
	Consumer string `json:"consumer"` // eager | late | never
	CloseAt  int    `json:"close_at"` // close the listener after this many connections have been injected (-1: at the end)
	Procs    int    `json:"procs"`    // GOMAXPROCS = capacity of the hand-off channel
	Payload  int    `json:"payload"`  // bytes after the kind/id prefix
	// Two: the same ListenerWrapper wraps two listeners (a server with two listen addresses);
	// connection i arrives on listener i%2 and must come out of that listener's Accept
	Two bool `json:"two_listeners,omitempty"`
}

const routesJSON = `[
 {"match":[{"h_need":{"id":"mT","k":1,"pat":"T","err_on":"E"}}], "handle":[{"handler":"h_rec","id":"term","buf":7}]},
 {"match":[{"h_need":{"id":"mG","k":1,"pat":"G"}}], "handle":[{"handler":"h_consume","id":"c2","n":2}]},
 {"match":[{"h_need":{"id":"mP","k":1,"pat":"P"}}], "handle":[{"handler":"proxy_protocol"}]},
 {"match":[{"h_need":{"id":"mS","k":1,"pat":"\u0016"}}], "handle":[{"handler":"h_tls"}]},
 {"match":[{"h_need":{"id":"mU","k":3,"pat":"UUU"}}], "handle":[{"handler":"h_rec","id":"never","buf":7}]},
 {"match":[{"h_need":{"id":"mL","k":1,"pat":"L"}}], "handle":[{"handler":"h_rec","id":"term","buf":7}]}
]`

const ppHeader = "PROXY TCP4 198.51.100.7 203.0.113.2 1111 2222\r\n"

// handedOver is what the wrapped listener's consumer must read from connection i.
func handedOver(kind byte, i, payload int) string {
	full := stream(kind, i, payload)
	switch kind {
	case 'G', 'H':
		return string(full[2:])
	case 'W':
		return string(full[len(ppHeader):])
	}
	return string(full)
}

func stream(kind byte, i, payload int) []byte {
	s := []byte{kind, byte('0' + i)}
	if kind == 'H' {
		// matched by the consuming (non-terminal) route first, then, on what is left, by a
		// terminal route that comes later in the list
		s = []byte{'G', byte('0' + i), 'L'}
	}
	if kind == 'W' {
		s = append([]byte(ppHeader), s...)
	}
	if kind == 'B' {
		for j := 0; j < 9300; j++ {
			s = append(s, byte('a'+(i*7+j)%26))
		}
		return s
	}
	if kind == 'U' {
		return s // two bytes only: the 3-byte matcher stays undecided until the matching timeout
	}
	for j := 0; j < payload; j++ {
		s = append(s, byte('a'+(i*7+j)%26))
	}
	return s
}

type accepted struct {
	data []byte
	err  string
	dup  bool
	tls  bool   // the connection exposes ConnectionState()
	sni  string // ... and this server name
	via  int    // which wrapped listener's Accept returned it
}

type result struct {
	out        vsched.Outcome
	events     []hm.Event
	accepted   []accepted
	acceptErr  string
	clients    []*vnet.Conn // client ends
	servers    []*vnet.Conn // server ends (what layer4 holds)
	injected   int
	closed     bool
	lateAccept string
	long       []*vnet.Conn // client ends of long-lived connections (kind L)
	taken      map[int]bool // connections the wrapper's loop accepted from the underlying listener
	mu         sync.Mutex
}

func execute(x *explore.Exec, sc *Scn) *result {
	res := &result{}
	hm.Global = &hm.Trace{}
	layer4.VerifResetPools()
	var trace func(string)
	if os.Getenv("VERIF_TRACE") != "" {
		trace = func(l string) { fmt.Println("  |", l) }
	}
	res.out = vsched.Run(x, vsched.Options{Horizon: 6000, GoMaxProcs: sc.Procs, Trace: trace}, func() {
		ctx, cancel := caddy.NewContext(caddy.Context{Context: context.Background()})
		defer cancel()
		lw := &layer4.ListenerWrapper{MatchingTimeout: caddy.Duration(2 * time.Second)}
		rj := routesJSON
		if strings.Contains(sc.Conns, "B") {
			// kind B: a stream of 9300 bytes in front of a route whose matcher needs 8000 of them
			// before it says no; the client's first write is 1000 bytes, so the matching buffer
			// crosses the 8 KiB limit off a chunk boundary before the connection falls through
			rj = strings.Replace(rj, "[\n", `[
 {"match":[{"h_need":{"id":"mB","k":8000,"pat":"#"}}], "handle":[{"handler":"h_rec","id":"never","buf":7}]},`+"\n", 1)
		}
		if strings.Contains(sc.Conns, "R") {
			// kind R: TLS termination followed by another non-terminal handler that replaces the
			// connection's transport (throttle) before the connection falls through
			rj = strings.Replace(rj, `{"handler":"h_tls"}`, `{"handler":"h_tls"},{"handler":"throttle","read_bytes_per_second":1000000,"read_burst_size":1000000}`, 1)
		}
		if err := json.Unmarshal([]byte(rj), &lw.Routes); err != nil {
			panic(err)
		}
		if err := lw.Provision(ctx); err != nil {
			panic(err)
		}
		inner := vnet.NewListener(vnet.TCP("10.0.0.1", 443))
		ln := lw.WrapListener(inner)
		inners, lns := []*vnet.Listener{inner}, []net.Listener{ln}
		if sc.Two {
			in2 := vnet.NewListener(vnet.TCP("10.0.0.1", 8443))
			inners, lns = append(inners, in2), append(lns, lw.WrapListener(in2))
		}
		consumerDone := false
		consumeOn := func(via int) {
			ln := lns[via]
			for {
				c, err := ln.Accept()
				if err != nil {
					res.mu.Lock()
					res.acceptErr = err.Error()
					res.mu.Unlock()
					return
				}
				buf := make([]byte, 5)
				if strings.Contains(sc.Conns, "B") {
					buf = make([]byte, 4096)
				}
				var data []byte
				var rerr error
				for rerr == nil {
					var n int
					n, rerr = c.Read(buf)
					data = append(data, buf[:n]...)
				}
				// the consumer answers on the connection it was given: it must still be usable
				_, werr := c.Write(append([]byte("re:"), data...))
				a := accepted{data: data, err: rerr.Error(), via: via}
				if cs, ok := c.(interface{ ConnectionState() tls.ConnectionState }); ok {
					st := cs.ConnectionState()
					a.tls, a.sni = st.HandshakeComplete, st.ServerName
				}
				if werr != nil {
					a.err += " / write: " + werr.Error()
				}
				res.mu.Lock()
				res.accepted = append(res.accepted, a)
				res.mu.Unlock()
				c.Close()
			}
		}
		consume := func() { consumeOn(0) }
		startConsumers := func() {
			vsched.GoNamed("consumer", func() { consume(); consumerDone = true })
			if sc.Two {
				vsched.GoNamed("consumer2", func() { consumeOn(1) })
			}
		}
		closeAll := func() {
			for _, l := range lns {
				l.Close()
			}
		}
		if sc.Consumer == "eager" {
			startConsumers()
		}
		for i := 0; i < len(sc.Conns); i++ {
			if sc.CloseAt == i {
				closeAll()
				res.closed = true
			}
			if sc.Conns[i] == 'X' {
				vsched.Point("inject accept error")
				inners[i%len(inners)].InjectErr(vnet.TempError{})
				res.clients = append(res.clients, nil)
				res.servers = append(res.servers, nil)
				continue
			}
			cl, sv := vnet.Pipe(fmt.Sprintf("c%d", i), fmt.Sprintf("s%d", i), vnet.TCP("192.0.2.9", 40000+i), vnet.TCP("10.0.0.1", 443))
			sv.Menu = hm.StdMenu(1, 2)
			res.clients = append(res.clients, cl)
			res.servers = append(res.servers, sv)
			s := stream(sc.Conns[i], i, sc.Payload)
			vsched.Point("inject")
			if sc.Conns[i] == 'S' || sc.Conns[i] == 'R' {
				// an interactive client: handshake, plaintext, close_notify, then read the reply
				vsched.GoNamed(fmt.Sprintf("tlsclient%d", i), func() {
					tc := tls.Client(cl, htls.ClientConfig)
					if tc.Handshake() != nil {
						return
					}
					tc.Write(s)
					tc.CloseWrite()
					io.Copy(io.Discard, tc)
				})
				inners[i%len(inners)].Inject(sv)
				res.injected++
				continue
			}
			if sc.Conns[i] == 'B' {
				cl.Write(s[:1000])
				s = s[1000:]
			}
			cl.Write(s)
			if sc.Conns[i] == 'L' {
				// a long-lived connection: matched by a terminal route, its client keeps it open
				// until after the listener has been closed and Accept has been probed
				res.long = append(res.long, cl)
			} else if sc.Conns[i] != 'U' {
				cl.CloseWrite()
			}
			inners[i%len(inners)].Inject(sv)
			res.injected++
		}
		if sc.Consumer == "late" {
			vtime.Sleep(3 * time.Second) // after every matching phase has ended one way or another
			startConsumers()
		}
		vtime.Sleep(5 * time.Second)
		if sc.CloseAt < 0 || sc.CloseAt >= len(sc.Conns) {
			closeAll()
			res.closed = true
		}
		vtime.Sleep(5 * time.Second)
		// after Close, Accept must report closure (possibly after handing out connections
		// that were still queued)
		for k := 0; k < len(sc.Conns)+2; k++ {
			c, err := ln.Accept()
			if err != nil {
				res.lateAccept = err.Error()
				break
			}
			res.lateAccept = "returned a connection"
			c.Close()
		}
		_ = consumerDone
		for _, cl := range res.long {
			cl.CloseWrite()
		}
		if len(res.long) > 0 {
			vtime.Sleep(2 * time.Second)
		}
		res.taken = map[int]bool{}
		for _, in := range inners {
			for _, c := range in.AcceptedConns {
				for i, sv := range res.servers {
					if sv != nil && c == net.Conn(sv) {
						res.taken[i] = true
					}
				}
			}
		}
	})
	res.events = hm.Global.Snapshot()
	return res
}

func check(x *explore.Exec, sc *Scn, r *result) {
	desc := func() string {
		var sb strings.Builder
		for _, a := range r.accepted {
			fmt.Fprintf(&sb, "accepted(%q %s) ", a.data, a.err)
		}
		for _, e := range r.events {
			if e.Kind == "done" {
				fmt.Fprintf(&sb, "handler(%s %q %s) ", e.ID, e.Data, e.Err)
			}
		}
		return fmt.Sprintf("scenario=%s %s| acceptErr=%q lateAccept=%q blocked=%v", hm.J(sc), sb.String(), r.acceptErr, r.lateAccept, r.out.Blocked)
	}
	for _, p := range r.out.Panics {
		x.Fail("panic:"+p[strings.LastIndex(p, " at ")+4:], "a thread panicked: %s; %s", p, desc())
	}
	if r.out.Horizon {
		x.Fail("horizon", "execution exceeded the step horizon; %s", desc())
		return
	}
	count := map[string]int{}
	for _, a := range r.accepted {
		count[string(a.data)]++
	}
	consumedByTerm := map[string]bool{}
	for _, e := range r.events {
		if e.Kind == "done" && e.ID == "term" {
			consumedByTerm[string(e.Data)] = true
		}
	}
	closeIdx := sc.CloseAt
	if closeIdx < 0 {
		closeIdx = len(sc.Conns)
	}
	for i := 0; i < len(sc.Conns); i++ {
		kind := sc.Conns[i]
		if kind == 'X' {
			continue
		}
		if !r.taken[i] {
			continue // never accepted from the underlying listener (it was closed first): not layer4's to handle
		}
		full := stream(kind, i, sc.Payload)
		want := handedOver(kind, i, sc.Payload)
		// any accepted stream that carries this connection's id but not exactly its bytes
		for _, a := range r.accepted {
			if len(a.data) > 1 && a.data[1] == byte('0'+i) && a.data[0] == kind && string(a.data) != want ||
				(kind == 'G' && strings.HasPrefix(string(full[2:]), string(a.data)) && len(a.data) > 0 && string(a.data) != want) {
				x.Fail("handover-stream-not-intact", "connection %d (%q) was handed over reading %q; %s", i, full, a.data, desc())
			}
		}
		if sc.Two {
			for _, a := range r.accepted {
				if string(a.data) == want && a.via != i%2 {
					x.Fail("delivered-by-wrong-listener", "connection %d arrived on wrapped listener %d but came out of listener %d's Accept; %s", i, i%2, a.via, desc())
				}
			}
		}
		if count[want] > 0 && !r.servers[i].ReadDeadline().IsZero() {
			x.Fail("deadline-armed-on-hand-over", "connection %d was handed over with the matching read deadline still armed (%v): a consumer that reads after the matching timeout gets an i/o timeout; %s", i, r.servers[i].ReadDeadline(), desc())
		}
		switch kind {
		case 'F', 'G', 'W', 'S', 'R', 'B':
			if kind == 'S' || kind == 'R' {
				for _, a := range r.accepted {
					if string(a.data) == want && (!a.tls || a.sni != "verif.test") {
						x.Fail("tls-state-not-exposed", "connection %d was handed over after TLS termination but does not expose the TLS connection state (handshake complete=%v, server name %q); %s", i, a.tls, a.sni, desc())
					}
				}
			}
			n := count[want]
			if n > 1 {
				x.Fail("delivered-twice", "connection %d delivered %d times; %s", i, n, desc())
			}
			arrivedBeforeClose := i < closeIdx
			if n == 0 && arrivedBeforeClose && sc.Consumer != "never" && sc.CloseAt < 0 && x.Used(explore.KTime) == 0 {
				x.Fail("fallthrough-not-delivered", "connection %d (%q) fell through but Accept never returned it with its stream intact; %s", i, full, desc())
			}
			if n == 0 && !r.servers[i].Closed() {
				x.Fail("pending-not-closed", "connection %d was neither delivered nor closed at the end; %s", i, desc())
			}
		case 'T', 'L', 'H':
			if count[want] > 0 {
				x.Fail("consumed-delivered", "connection %d was consumed by a terminal handler and also delivered; %s", i, desc())
			}
			if !r.servers[i].Closed() {
				x.Fail("consumed-not-closed", "connection %d (terminal route) was not closed; %s", i, desc())
			}
			if !consumedByTerm[want] {
				x.Fail("terminal-stream-not-intact", "the terminal handler of connection %d did not read its stream %q; %s", i, want, desc())
			}
		case 'U', 'E':
			if count[want] > 0 || len(r.accepted) > 0 && count[want] > 0 {
				x.Fail("rejected-delivered", "connection %d failed matching but was delivered; %s", i, desc())
			}
			if !r.servers[i].Closed() {
				x.Fail("rejected-not-closed", "connection %d failed matching but was not closed; %s", i, desc())
			}
		}
	}
	for _, a := range r.accepted {
		if a.err != "EOF" {
			x.Fail("handed-over-connection-unusable", "a connection returned by Accept failed with %q (its stream should end in EOF and it must accept writes); %s", a.err, desc())
		}
		known := false
		for i := 0; i < len(sc.Conns); i++ {
			if string(a.data) == handedOver(sc.Conns[i], i, sc.Payload) {
				known = true
			}
		}
		if !known {
			x.Fail("handover-stream-not-intact", "Accept returned a connection that reads %q, which is no client's (remaining) stream; %s", a.data, desc())
		}
	}
	if r.lateAccept != net.ErrClosed.Error() && len(r.out.Panics) == 0 {
		x.Fail("accept-after-close", "after Close, Accept did not report closure: %q; %s", r.lateAccept, desc())
	}
	if sc.Consumer != "never" && r.acceptErr != "" && r.acceptErr != net.ErrClosed.Error() {
		x.Fail("accept-error", "Accept failed with %q; %s", r.acceptErr, desc())
	}
	for _, b := range r.out.Blocked {
		if !strings.HasPrefix(b, "main:") && !strings.HasPrefix(b, "consumer") && !strings.HasPrefix(b, "tlsclient") {
			x.Fail("thread-left-blocked:"+b[strings.Index(b, ":")+1:], "after Close and quiescence a wrapper thread is still blocked: %s; %s", b, desc())
		}
	}
	var sb strings.Builder
	for _, a := range r.accepted {
		sb.WriteString(string(a.data[:min(2, len(a.data))]) + ",")
	}
	x.Observe(sb.String(), r.acceptErr, r.lateAccept, len(r.out.Blocked))
}

func scenarios(tier string, yield0 func(any) bool) {
	yield := func(sc *Scn) bool {
		if only := os.Getenv("VERIF_ONLY"); only != "" && only != fmt.Sprintf("%s,%s,%d,%d,%d", sc.Conns, sc.Consumer, sc.CloseAt, sc.Procs, sc.Payload) {
			return true
		}
		return yield0(sc)
	}
	kinds := "FTGUEW"
	var mixes []string
	for _, a := range kinds {
		mixes = append(mixes, string(a))
		for _, b := range kinds {
			mixes = append(mixes, string(a)+string(b))
			if tier == "thorough" {
				for _, c := range "FT" {
					mixes = append(mixes, string(a)+string(b)+string(c))
				}
			}
		}
	}
	mixes = append(mixes, "FFF", "FTF", "FFT", "WFW", "WWF", "S", "SF", "FS", "SS", "ST", "SU", "R", "RF", "L", "LF", "FL", "H", "HF", "FH", "B")
	if os.Getenv("VERIF_C13_SUBSET") == "stream" {
		// as the listener-wrapper part of C01: what the wrapped listener's consumer reads is the
		// client's stream from the first unconsumed byte (plain, after a consuming route, after
		// PROXY-header stripping, after TLS termination followed by further matching)
		mixes = []string{"F", "G", "W", "S", "FG", "WS", "GW"}
	}
	if os.Getenv("VERIF_C13_SUBSET") == "fallback" {
		// as the listener part of C02: a connection no route wants is handed to the wrapped
		// listener it arrived on, once, intact (alone, next to matched ones, one wrapper around
		// two listeners)
		mixes = []string{"F", "FF", "FT", "TF", "G", "S", "B"}
	}
	// a transient accept error between arrivals
	if os.Getenv("VERIF_C13_SUBSET") == "" {
		for _, m := range []string{"XF", "FXF", "FXT", "XFXF"} {
			for _, cons := range []string{"eager", "late"} {
				if !yield(&Scn{Conns: m, Consumer: cons, CloseAt: -1, Procs: 1, Payload: 3}) {
					return
				}
			}
		}
	}
	// one wrapper instance around two listeners
	if sub := os.Getenv("VERIF_C13_SUBSET"); sub == "" || sub == "fallback" {
		for _, m := range []string{"F", "FF", "FG"} {
			for _, cons := range []string{"eager", "late"} {
				if !yield(&Scn{Conns: m, Consumer: cons, CloseAt: -1, Procs: 1, Payload: 3, Two: true}) {
					return
				}
			}
		}
	}
	for _, m := range mixes {
		for _, cons := range []string{"eager", "late", "never"} {
			if os.Getenv("VERIF_C13_SUBSET") != "" && cons == "never" {
				continue
			}
			for _, procs := range []int{1, 2} {
				closes := []int{-1}
				for k := 0; k <= len(m); k++ {
					closes = append(closes, k)
				}
				for _, cl := range closes {
					if strings.ContainsAny(m, "SRB") && (procs == 2 || cl > 1) {
						continue
					}
					for _, pl := range []int{3, 9} {
						if pl == 9 && (cl >= 0 || procs == 2) {
							continue
						}
						if !yield(&Scn{Conns: m, Consumer: cons, CloseAt: cl, Procs: procs, Payload: pl}) {
							return
						}
					}
				}
			}
		}
	}
}

func bounds(tier string) (explore.Bounds, int) {
	b := explore.DefaultBounds(2)
	b[explore.KSched] = 4
	b[explore.KSelect] = 3
	b[explore.KRead] = 1
	if tier == "thorough" {
		b[explore.KSched] = 5
		return b, 4
	}
	return b, 3
}

func main() {
	_ = errors.New
	runner.Main(&runner.Harness{
		ID:    "C13",
		Level: "model_checking",
		Rule:  "mixes of 1-2 (3 thorough) connections of kinds {terminal-route match, fall-through, fall-through after a non-terminal route consumed 2 bytes, fall-through of the wrapped connection after the shipped proxy_protocol handler stripped a PROXY header, fall-through after TLS termination by the real l4tls handler with a crypto/tls client (plaintext and exposed TLS state), undecided until the matching timeout, matcher error} x consumer {Accept eagerly, only after all matching ended, never} x hand-off channel capacity {1,2} x listener Close before connection k / at the end x payload {3, 9 bytes}; every interleaving of the real listener loop, handle goroutines, Accept, Close and the consumer within the joint deviation budget (delay bounding; 3 quick / 4 thorough for the mixes around a falling-through connection with channel capacity 1, one less otherwise: preemptions, select alternatives, early timers, pool misses, short reads); the buffer pool is a deterministic LIFO so that reuse of a just-returned buffer is the default; kind R: TLS termination followed by a throttle handler (which replaces the transport) before the connection falls through; kinds L (consumed connection kept open across Close), H (consuming route, then a terminal route later in the list), B (9300-byte stream behind a matcher needing 8000 bytes, first write 1000 bytes)",
		Assumptions: []string{
			"the code under test is /repo's working tree mechanically redirected to the scheduler (tools/gomcrw); sync.Pool is replaced by a deterministic LIFO pool",
			"TLS-terminated fall-through is covered by C01's TLS chains and the tlsConnection wrapper is not exercised here",
		},
		Scenarios: scenarios,
		Run: func(tier string, scAny any, rep *runner.Report) {
			sc := scAny.(*Scn)
			b, tot := bounds(tier)
			ex := explore.New(b)
			ex.Total = tot
			// the full budget goes to single connections and to the basic hand-over races;
			// every other mix gets one deviation fewer (thorough: the core set is wider)
			core := map[string]bool{"FF": true, "FT": true, "TF": true, "FG": true, "FU": true}
			if tier == "thorough" {
				core = map[string]bool{"FF": true, "FT": true, "TF": true, "FG": true, "GF": true, "FU": true, "FE": true}
			}
			full := len(sc.Conns) == 1 || (core[sc.Conns] && sc.Procs == 1 && sc.Consumer != "never" && sc.Payload == 3)
			if tier == "thorough" && len(sc.Conns) > 1 {
				ex.Total-- // 3 only for single connections
			}
			if !full {
				ex.Total--
			}
			if tier != "thorough" && len(sc.Conns) > 1 {
				ex.Bounds[explore.KTime] = 1
			}
			if sc.Two && len(sc.Conns) > 1 && tier != "thorough" {
				ex.Total = 2 // two consumers: more threads, same depth as the other mixes
			}
			if strings.ContainsAny(sc.Conns, "SRB") {
				// a TLS handshake is ~100 scheduling points per execution
				ex.Total = 1
				if tier == "thorough" {
					ex.Total = 2
				}
			}
			ex.Stop = rep.Expired
			vsched.StateSink = rep.State
			ex.Explore(func(x *explore.Exec) { check(x, sc, execute(x, sc)) })
			rep.AddStats(sc, &ex.Stats)
			if os.Getenv("VERIF_STATS") != "" {
				fmt.Printf("%s: execs=%d steps/exec=%d points/exec=%d devhist=%v\n", hm.J(sc), ex.Stats.Executions, ex.Stats.Transitions/ex.Stats.Executions, ex.Stats.Points/ex.Stats.Executions, ex.Stats.DevHist)
			}
		},
		DecodeScenario: func(raw json.RawMessage) (any, error) {
			sc := &Scn{}
			return sc, json.Unmarshal(raw, sc)
		},
		Replay: func(scAny any, choices []int) []explore.Failure {
			sc := scAny.(*Scn)
			b, _ := bounds("thorough")
			ex := explore.New(b)
			return ex.RunOnce(choices, func(x *explore.Exec) { check(x, sc, execute(x, sc)) }).Failures
		},
		Budget: func(tier string) time.Duration {
			if tier == "thorough" {
				return 25 * time.Minute
			}
			return 120 * time.Second
		},
	})
}
