// Package vrand stands in for math/rand inside rewritten repository code: every random
// draw becomes an explorer choice point, so all outcomes are enumerated.
package vrand

import (
	"fmt"
	"sort"
)

// Hook answers a draw from [0,n).  Set by the harness for the duration of an execution.
var Hook func(n int) int

// IntDomain is the number of distinct values Int() can return: 0..IntDomain-1 covers every
// residue modulo 1,2,3,4,6 and 12, which is all the code under test does with Int().
var IntDomain = 12

func Intn(n int) int {
	if n <= 0 {
		panic("invalid argument to Intn")
	}
	if Hook == nil {
		return 0
	}
	return Hook(n)
}

func Int() int {
	if Hook == nil {
		return 0
	}
	return Hook(IntDomain)
}

func Float64() float64 { return float64(Int()) / float64(IntDomain) }

// MapMode decides the order in which rewritten `range` statements over maps visit the keys:
// 0 the runtime's (random) order, 1 ascending by the printed key, 2 descending.  A result that
// depends on map iteration order differs between modes 1 and 2 as soon as a map has two keys.
var MapMode int

// MapKeys snapshots the keys of m in the order MapMode asks for.
func MapKeys[M ~map[K]V, K comparable, V any](m M) []K {
	keys := make([]K, 0, len(m))
	for k := range m {
		keys = append(keys, k)
	}
	if MapMode != 0 {
		sort.SliceStable(keys, func(i, j int) bool {
			a, b := fmt.Sprint(keys[i]), fmt.Sprint(keys[j])
			if MapMode == 1 {
				return a < b
			}
			return a > b
		})
	}
	return keys
}
