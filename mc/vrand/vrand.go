// Package vrand stands in for math/rand inside rewritten repository code: every random
// draw becomes an explorer choice point, so all outcomes are enumerated.
package vrand

// Hook answers a draw from [0,n).  Set by the harness for the duration of an execution.
var Hook func(n int) int

// IntDomain is the number of distinct values Int() can return: 0..IntDomain-1 covers every
// residue modulo 1,2,3,4,6 and 12, which is all the code under test does with Int().
var IntDomain = 12

func Intn(n int) int {
	if n <= 0 {
		panic("invalid argument to Intn")
	}
	if Hook == nil {
		return 0
	}
	return Hook(n)
}

func Int() int {
	if Hook == nil {
		return 0
	}
	return Hook(IntDomain)
}

func Float64() float64 { return float64(Int()) / float64(IntDomain) }
