// Package vsync replaces sync primitives in rewritten code.  Each shim decides *when* the
// operation may happen (model state + scheduler) and then performs the real primitive,
// which is never contended, so the race detector still sees the program's own
// happens-before edges.
package vsync

import (
	"sync"

	"verif/mc/explore"
	"verif/mc/vsched"
)

type Mutex struct {
	mu     sync.Mutex
	locked bool
}

func (m *Mutex) Lock() {
	if vsched.S != nil {
		vsched.Yield("lock", func() bool { return !m.locked })
		m.locked = true
	}
	m.mu.Lock()
}

func (m *Mutex) TryLock() bool {
	if vsched.S != nil {
		vsched.Point("trylock")
		if m.locked {
			return false
		}
		m.locked = true
	}
	return m.mu.TryLock()
}

func (m *Mutex) Unlock() {
	m.locked = false
	m.mu.Unlock()
}

type RWMutex struct {
	mu      sync.RWMutex
	writer  bool
	readers int
}

func (m *RWMutex) Lock() {
	if vsched.S != nil {
		vsched.Yield("wlock", func() bool { return !m.writer && m.readers == 0 })
		m.writer = true
	}
	m.mu.Lock()
}
func (m *RWMutex) Unlock() { m.writer = false; m.mu.Unlock() }
func (m *RWMutex) RLock() {
	if vsched.S != nil {
		vsched.Yield("rlock", func() bool { return !m.writer })
		m.readers++
	}
	m.mu.RLock()
}
func (m *RWMutex) RUnlock() {
	if vsched.S != nil {
		m.readers--
	}
	m.mu.RUnlock()
}
func (m *RWMutex) RLocker() sync.Locker { return (*rlocker)(m) }

type rlocker RWMutex

func (r *rlocker) Lock()   { (*RWMutex)(r).RLock() }
func (r *rlocker) Unlock() { (*RWMutex)(r).RUnlock() }

type Locker = sync.Locker

type WaitGroup struct {
	wg sync.WaitGroup
	n  int
}

func (w *WaitGroup) Add(d int) {
	w.n += d
	w.wg.Add(d)
}
func (w *WaitGroup) Done() { w.Add(-1) }
func (w *WaitGroup) Wait() {
	if vsched.S != nil {
		vsched.Yield("wg.Wait", func() bool { return w.n == 0 })
	}
	w.wg.Wait()
}

type Once struct {
	mu   Mutex
	done bool
}

func (o *Once) Do(f func()) {
	o.mu.Lock()
	defer o.mu.Unlock()
	if !o.done {
		defer func() { o.done = true }()
		f()
	}
}

// Pool is a deterministic LIFO pool.  Get normally returns the most recently Put object
// (maximal reuse, the interesting case for lifetime bugs); returning a fresh object from
// New instead is a 'pool' deviation.  Under the scheduler the list itself needs no lock
// (one thread runs at a time) and must not have one: a shared lock would create
// happens-before edges between unrelated Get/Put pairs and hide races from the detector.
// Like the real sync.Pool, only Put(x) -> Get() returning the same x is ordered (per-item
// channel hand-off).
type Pool struct {
	New   func() any
	items []poolItem
	mu    sync.Mutex
}

type poolItem struct {
	v  any
	hb chan struct{}
}

func (p *Pool) pop() (any, bool) {
	if n := len(p.items); n > 0 {
		it := p.items[n-1]
		p.items = p.items[:n-1]
		<-it.hb // acquire: ordered after the Put of this very item
		return it.v, true
	}
	return nil, false
}

func (p *Pool) Get() any {
	if vsched.S == nil {
		p.mu.Lock()
		defer p.mu.Unlock()
		if v, ok := p.pop(); ok {
			return v
		}
		if p.New != nil {
			return p.New()
		}
		return nil
	}
	vsched.Point("pool.Get")
	if len(p.items) > 0 {
		if p.New == nil || vsched.S.X.Choose(explore.KPool, 2) == 0 {
			v, _ := p.pop()
			return v
		}
	}
	if p.New != nil {
		return p.New()
	}
	return nil
}

func (p *Pool) Put(x any) {
	it := poolItem{v: x, hb: make(chan struct{}, 1)}
	it.hb <- struct{}{} // release
	if vsched.S == nil {
		p.mu.Lock()
		defer p.mu.Unlock()
	}
	p.items = append(p.items, it)
}

// Reset empties the pool (between executions).
func (p *Pool) Reset() {
	p.mu.Lock()
	p.items = nil
	p.mu.Unlock()
}
