// Package vio provides io.Pipe for scheduled executions: same blocking semantics
// (a Write completes only when readers have consumed all of it or a side closed; a Read
// waits for a Write or for the writer's close), expressed with scheduler yields.
package vio

import (
	"io"

	"verif/mc/vsched"
	"verif/mc/vsync"
)

type pipe struct {
	wrMu     vsync.Mutex
	pending  []byte
	hasWrite bool
	rclosed  bool
	wclosed  bool
	rerr     error // error given to writers after the reader closed
	werr     error // error given to readers after the writer closed
}

type PipeReader struct{ p *pipe }
type PipeWriter struct{ p *pipe }

func Pipe() (*PipeReader, *PipeWriter) {
	if vsched.S == nil {
		panic("vio.Pipe outside a scheduled execution")
	}
	p := &pipe{}
	return &PipeReader{p}, &PipeWriter{p}
}

func (r *PipeReader) Read(b []byte) (int, error) {
	p := r.p
	vsched.Yield("pipe.Read", func() bool { return p.rclosed || p.wclosed || (p.hasWrite && len(p.pending) > 0) })
	switch {
	case p.rclosed:
		return 0, io.ErrClosedPipe
	case p.hasWrite && len(p.pending) > 0 && !p.wclosed:
		n := copy(b, p.pending)
		p.pending = p.pending[n:]
		return n, nil
	default:
		if p.werr != nil {
			return 0, p.werr
		}
		return 0, io.EOF
	}
}

func (r *PipeReader) Close() error { return r.CloseWithError(nil) }
func (r *PipeReader) CloseWithError(err error) error {
	vsched.Point("pipe.CloseRead")
	if err == nil {
		err = io.ErrClosedPipe
	}
	if !r.p.rclosed && !r.p.wclosed {
		r.p.rerr = err
	}
	r.p.rclosed = true
	return nil
}

func (w *PipeWriter) Write(b []byte) (int, error) {
	p := w.p
	p.wrMu.Lock()
	defer p.wrMu.Unlock()
	switch {
	case p.wclosed:
		return 0, io.ErrClosedPipe
	case p.rclosed:
		return 0, p.rerrOr()
	}
	if len(b) == 0 {
		vsched.Point("pipe.Write0")
		return 0, nil
	}
	p.pending, p.hasWrite = b, true
	vsched.Yield("pipe.Write", func() bool { return len(p.pending) == 0 || p.rclosed || p.wclosed })
	n := len(b) - len(p.pending)
	p.pending, p.hasWrite = nil, false
	switch {
	case n == len(b):
		return n, nil
	case p.wclosed:
		return n, io.ErrClosedPipe
	default:
		return n, p.rerrOr()
	}
}

func (p *pipe) rerrOr() error {
	if p.rerr != nil {
		return p.rerr
	}
	return io.ErrClosedPipe
}

func (w *PipeWriter) Close() error { return w.CloseWithError(nil) }
func (w *PipeWriter) CloseWithError(err error) error {
	vsched.Point("pipe.CloseWrite")
	if err == nil {
		err = io.EOF
	}
	if !w.p.wclosed && !w.p.rclosed {
		w.p.werr = err
	}
	w.p.wclosed = true
	return nil
}
