// Package vatomic replaces sync/atomic in rewritten code: a scheduling point, then the
// real atomic operation.
package vatomic

import (
	"sync/atomic"

	"verif/mc/vsched"
)

func pt() {
	if vsched.S != nil {
		vsched.Point("atomic")
	}
}

func AddInt32(a *int32, d int32) int32              { pt(); return atomic.AddInt32(a, d) }
func AddInt64(a *int64, d int64) int64              { pt(); return atomic.AddInt64(a, d) }
func AddUint32(a *uint32, d uint32) uint32          { pt(); return atomic.AddUint32(a, d) }
func AddUint64(a *uint64, d uint64) uint64          { pt(); return atomic.AddUint64(a, d) }
func LoadInt32(a *int32) int32                      { pt(); return atomic.LoadInt32(a) }
func LoadInt64(a *int64) int64                      { pt(); return atomic.LoadInt64(a) }
func LoadUint32(a *uint32) uint32                   { pt(); return atomic.LoadUint32(a) }
func LoadUint64(a *uint64) uint64                   { pt(); return atomic.LoadUint64(a) }
func StoreInt32(a *int32, v int32)                  { pt(); atomic.StoreInt32(a, v) }
func StoreInt64(a *int64, v int64)                  { pt(); atomic.StoreInt64(a, v) }
func StoreUint32(a *uint32, v uint32)               { pt(); atomic.StoreUint32(a, v) }
func StoreUint64(a *uint64, v uint64)               { pt(); atomic.StoreUint64(a, v) }
func SwapInt32(a *int32, v int32) int32             { pt(); return atomic.SwapInt32(a, v) }
func SwapUint32(a *uint32, v uint32) uint32         { pt(); return atomic.SwapUint32(a, v) }
func CompareAndSwapInt32(a *int32, o, n int32) bool { pt(); return atomic.CompareAndSwapInt32(a, o, n) }
func CompareAndSwapInt64(a *int64, o, n int64) bool { pt(); return atomic.CompareAndSwapInt64(a, o, n) }
func CompareAndSwapUint32(a *uint32, o, n uint32) bool {
	pt()
	return atomic.CompareAndSwapUint32(a, o, n)
}
func CompareAndSwapUint64(a *uint64, o, n uint64) bool {
	pt()
	return atomic.CompareAndSwapUint64(a, o, n)
}

type Bool struct{ v atomic.Bool }

func (b *Bool) Load() bool                    { pt(); return b.v.Load() }
func (b *Bool) Store(x bool)                  { pt(); b.v.Store(x) }
func (b *Bool) Swap(x bool) bool              { pt(); return b.v.Swap(x) }
func (b *Bool) CompareAndSwap(o, n bool) bool { pt(); return b.v.CompareAndSwap(o, n) }

type Int32 struct{ v atomic.Int32 }

func (b *Int32) Load() int32                    { pt(); return b.v.Load() }
func (b *Int32) Store(x int32)                  { pt(); b.v.Store(x) }
func (b *Int32) Add(x int32) int32              { pt(); return b.v.Add(x) }
func (b *Int32) Swap(x int32) int32             { pt(); return b.v.Swap(x) }
func (b *Int32) CompareAndSwap(o, n int32) bool { pt(); return b.v.CompareAndSwap(o, n) }

type Int64 struct{ v atomic.Int64 }

func (b *Int64) Load() int64                    { pt(); return b.v.Load() }
func (b *Int64) Store(x int64)                  { pt(); b.v.Store(x) }
func (b *Int64) Add(x int64) int64              { pt(); return b.v.Add(x) }
func (b *Int64) Swap(x int64) int64             { pt(); return b.v.Swap(x) }
func (b *Int64) CompareAndSwap(o, n int64) bool { pt(); return b.v.CompareAndSwap(o, n) }

type Uint32 struct{ v atomic.Uint32 }

func (b *Uint32) Load() uint32                    { pt(); return b.v.Load() }
func (b *Uint32) Store(x uint32)                  { pt(); b.v.Store(x) }
func (b *Uint32) Add(x uint32) uint32             { pt(); return b.v.Add(x) }
func (b *Uint32) CompareAndSwap(o, n uint32) bool { pt(); return b.v.CompareAndSwap(o, n) }

type Uint64 struct{ v atomic.Uint64 }

func (b *Uint64) Load() uint64                    { pt(); return b.v.Load() }
func (b *Uint64) Store(x uint64)                  { pt(); b.v.Store(x) }
func (b *Uint64) Add(x uint64) uint64             { pt(); return b.v.Add(x) }
func (b *Uint64) CompareAndSwap(o, n uint64) bool { pt(); return b.v.CompareAndSwap(o, n) }

type Value = atomic.Value

type Pointer[T any] struct{ v atomic.Pointer[T] }

func (p *Pointer[T]) Load() *T                    { pt(); return p.v.Load() }
func (p *Pointer[T]) Store(x *T)                  { pt(); p.v.Store(x) }
func (p *Pointer[T]) Swap(x *T) *T                { pt(); return p.v.Swap(x) }
func (p *Pointer[T]) CompareAndSwap(o, n *T) bool { pt(); return p.v.CompareAndSwap(o, n) }
