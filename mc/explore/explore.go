// Package explore is E1: a stateless depth-first explorer over numbered choice
// points.  The body of an execution calls Choose at every source of
// nondeterminism; Explore re-runs the body for every sequence of answers whose
// per-kind deviation count stays inside the bounds.  Alternative 0 is the
// default answer and costs nothing.
package explore

import (
	"fmt"
	"hash/fnv"
)

type Kind uint8

const (
	KSched  Kind = iota // scheduling decision (cost: preemption)
	KTime               // virtual-time deviation (timer fires early / timeout instead of data)
	KRead               // short read / partial arrival
	KSelect             // which ready select case fires (free)
	KPool               // sync.Pool returns fresh object instead of most recent
	KFault              // injected environment fault
	KRand               // random number (free: always fully enumerated)
	KInput              // input dimension (free)
	NumKinds
)

var KindNames = [NumKinds]string{"sched", "time", "read", "select", "pool", "fault", "rand", "input"}

// Unbounded marks a kind whose alternatives are always all explored.
const Unbounded = -1

type Bounds [NumKinds]int

// DefaultBounds: everything bounded to b except the free kinds.
func DefaultBounds(b int) Bounds {
	var r Bounds
	for i := range r {
		r[i] = b
	}
	r[KSelect], r[KRand], r[KInput] = Unbounded, Unbounded, Unbounded
	return r
}

type point struct {
	kind   Kind
	n      int
	chosen int
	costs  []int // nil = cost 1 for every alternative > 0
	used   [NumKinds]int16
}

func (p *point) cost(alt int) int {
	if alt == 0 {
		if p.costs != nil {
			return p.costs[0]
		}
		return 0
	}
	if p.costs != nil {
		return p.costs[alt]
	}
	return 1
}

// Failure is one oracle violation found in one execution.
type Failure struct {
	Sig     string `json:"sig"`
	Msg     string `json:"msg"`
	Choices []int  `json:"choices"`
}

// Exec is the handle an execution body uses.
type Exec struct {
	ex       *Explorer
	prefix   []int
	trace    []point
	used     [NumKinds]int16
	Failures []Failure
	obs      uint64
	Steps    int64 // transitions (hooked operations) in this execution
	aborted  bool
	diverged bool // a replayed choice did not fit: the rest of the execution takes default answers
}

// NondetError is raised (as panic value) if a replayed prefix does not fit the
// choice points met; it is a harness error, never a violation.
type NondetError struct{ Msg string }

func (e NondetError) Error() string { return "HARNESS-NONDETERMINISM: " + e.Msg }

// Heartbeat counts explorer activity; a watchdog that sees it stand still knows that the
// execution is blocked inside code the scheduler does not control.
// (a plain counter on purpose: an atomic here would order every pair of scheduler steps for
// the race detector and hide the races of the program under test)
var Heartbeat int64

// Choose asks for an answer in [0,n).  Alternative i>0 costs 1 deviation of kind.
func (x *Exec) Choose(kind Kind, n int) int { return x.ChooseCost(kind, n, nil) }

// ChooseCost is Choose with an explicit cost per alternative (len(costs)==n).
func (x *Exec) ChooseCost(kind Kind, n int, costs []int) int {
	if n <= 0 {
		panic(fmt.Sprintf("explore: Choose(%s,%d)", KindNames[kind], n))
	}
	x.Steps++
	Heartbeat++
	if n == 1 && (costs == nil || costs[0] == 0) {
		return 0
	}
	i := len(x.trace)
	c := 0
	if i < len(x.prefix) {
		c = x.prefix[i]
		if x.diverged {
			c = 0 // the execution is being wound down after a divergence: default answers
		} else if c < 0 || c >= n {
			x.diverged = true
			panic(NondetError{fmt.Sprintf("point %d: replayed choice %d out of range (kind %s, n=%d)", i, c, KindNames[kind], n)})
		}
	}
	p := point{kind: kind, n: n, chosen: c, used: x.used}
	if costs != nil {
		p.costs = append([]int(nil), costs...)
	}
	x.trace = append(x.trace, p)
	x.used[kind] += int16(p.cost(c))
	return c
}

// Fail records a violation; the execution continues.
func (x *Exec) Fail(sig, format string, a ...any) {
	for _, f := range x.Failures {
		if f.Sig == sig {
			return
		}
	}
	x.Failures = append(x.Failures, Failure{Sig: sig, Msg: fmt.Sprintf(format, a...)})
}

// Observe folds a value into the execution's observation digest.
func (x *Exec) Observe(a ...any) {
	h := fnv.New64a()
	fmt.Fprint(h, x.obs, "|")
	fmt.Fprintln(h, a...)
	x.obs = h.Sum64()
}

func (x *Exec) Step()           { x.Steps++ }
func (x *Exec) Digest() uint64  { return x.obs }
func (x *Exec) Choices() []int  { return choicesOf(x.trace) }
func (x *Exec) Depth() int      { return len(x.trace) }
func (x *Exec) Used(k Kind) int { return int(x.used[k]) }
func (x *Exec) Replaying() bool { return len(x.trace) < len(x.prefix) }

func choicesOf(t []point) []int {
	r := make([]int, len(t))
	for i := range t {
		r[i] = t[i].chosen
	}
	return r
}

type Stats struct {
	Executions  int64
	Transitions int64
	Points      int64 // genuine choice points met (n>1)
	MaxDepth    int
	Outcomes    map[uint64]struct{}
	Failures    []Failure
	CapHit      bool
	DevHist     [NumKinds][8]int64 // executions by number of deviations used per kind
}

type Explorer struct {
	Bounds Bounds
	// Total, when > 0, additionally bounds the sum of deviations over all bounded kinds
	// (a joint budget: per-kind bounds alone multiply).
	Total   int
	MaxExec int64       // 0 = unlimited
	Stop    func() bool // polled between executions (deadline)
	// Prune, when set, is asked at every fresh (non-replayed) choice point whether the
	// subtree below has already been covered; used by the scheduler's state-key cache.
	Stats Stats
}

func New(b Bounds) *Explorer {
	return &Explorer{Bounds: b, Stats: Stats{Outcomes: map[uint64]struct{}{}}}
}

// RunOnce executes body with the given choice list as prefix (defaults afterwards).
func (e *Explorer) RunOnce(prefix []int, body func(*Exec)) *Exec {
	x := &Exec{ex: e, prefix: prefix}
	body(x)
	for i := range x.Failures {
		x.Failures[i].Choices = x.Choices()
	}
	return x
}

func (e *Explorer) allowed(p *point, alt int) bool {
	b := e.Bounds[p.kind]
	if b == Unbounded {
		return true
	}
	if int(p.used[p.kind])+p.cost(alt) > b {
		return false
	}
	if e.Total > 0 {
		sum := p.cost(alt)
		for k := Kind(0); k < NumKinds; k++ {
			if e.Bounds[k] != Unbounded {
				sum += int(p.used[k])
			}
		}
		return sum <= e.Total
	}
	return true
}

// Explore enumerates every choice sequence within the bounds, depth first, defaults
// first.  It returns early when Stop() says so or MaxExec is reached (CapHit=true).
func (e *Explorer) Explore(body func(*Exec)) {
	var prefix []int
	for {
		x := e.RunOnce(prefix, body)
		st := &e.Stats
		st.Executions++
		st.Transitions += x.Steps
		st.Points += int64(len(x.trace))
		if len(x.trace) > st.MaxDepth {
			st.MaxDepth = len(x.trace)
		}
		st.Outcomes[x.obs] = struct{}{}
		for k := Kind(0); k < NumKinds; k++ {
			u := x.used[k]
			if u > 7 {
				u = 7
			}
			st.DevHist[k][u]++
		}
		for _, f := range x.Failures {
			dup := false
			for _, g := range st.Failures {
				if g.Sig == f.Sig {
					dup = true
					break
				}
			}
			if !dup {
				st.Failures = append(st.Failures, f)
			}
		}
		// backtrack
		t := x.trace
		i := len(t) - 1
		next := -1
		for ; i >= 0; i-- {
			if i < 0 {
				break
			}
			for alt := t[i].chosen + 1; alt < t[i].n; alt++ {
				if e.allowed(&t[i], alt) {
					next = alt
					break
				}
			}
			if next >= 0 {
				break
			}
		}
		if next < 0 {
			return
		}
		prefix = append(choicesOf(t[:i]), next)
		if (e.MaxExec > 0 && st.Executions >= e.MaxExec) || (e.Stop != nil && e.Stop()) {
			st.CapHit = true
			return
		}
	}
}
