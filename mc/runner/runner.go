// Package runner turns a property harness into a check binary: it shards the
// scenario space over worker subprocesses, merges their reports, applies the
// known-findings list, writes evidence and replay files and prints the
// VIOLATION / KNOWN-FINDING lines required by the interface.
package runner

import (
	"bufio"
	"encoding/json"
	"flag"
	"fmt"
	"os"
	"os/exec"
	"path/filepath"
	"runtime"
	"runtime/debug"
	"sort"
	"strconv"
	"strings"
	"sync"
	"syscall"
	"time"

	"verif/mc/explore"
)

// Failure is a violation found in one scenario.
type Failure struct {
	Sig      string          `json:"sig"`
	Msg      string          `json:"msg"`
	Scenario json.RawMessage `json:"scenario"`
	Choices  []int           `json:"choices"`
	Stable   bool            `json:"stable"` // reproduced identically on 5 replays
	Order    int64           `json:"order"`  // index of the scenario in enumeration order (simplest first)
	// History: the executions that ran on the same live instance just before this one.  It is
	// kept (and becomes part of the replay file) only if the failure does not reproduce on a
	// fresh instance alone but does reproduce after them: state carried from one connection
	// to the next.
	History []HistItem `json:"history,omitempty"`
}

// HistItem is one earlier execution on the same instance.
type HistItem struct {
	Scenario json.RawMessage `json:"scenario"`
	Choices  []int           `json:"choices"`
}

// Report is what one shard (or the merged run) measured.
type Report struct {
	Scenarios   int64             `json:"scenarios"`
	Executions  int64             `json:"executions"`
	Transitions int64             `json:"transitions"`
	States      int64             `json:"states"`
	Nontrivial  int64             `json:"nontrivial"`
	MaxDepth    int               `json:"max_depth"`
	Outcomes    []uint64          `json:"outcomes"`
	OutcomesCap bool              `json:"outcomes_capped"`
	Failures    []Failure         `json:"failures"`
	Samples     []json.RawMessage `json:"samples"`
	Incidents   map[string]int64  `json:"incidents"`
	Counters    map[string]int64  `json:"counters"`
	CapsHit     []string          `json:"caps_hit"`
	Notes       []string          `json:"notes"`
	outSet      map[uint64]struct{}
	stateSet    map[uint64]struct{}
	sigSeen     map[string]bool
	history     []HistItem
	deadline    time.Time
	curIdx      int64
	curScenario []byte
	Tier        string `json:"-"`
	mu          sync.Mutex
}

const outcomeCap = 300000

func NewReport() *Report {
	return &Report{outSet: map[uint64]struct{}{}, stateSet: map[uint64]struct{}{}, sigSeen: map[string]bool{},
		Incidents: map[string]int64{}, Counters: map[string]int64{}}
}

func (r *Report) Count(name string, n int64) { r.Counters[name] += n }
func (r *Report) Incident(name string)       { r.Incidents[name]++ }
func (r *Report) Note(s string) {
	for _, n := range r.Notes {
		if n == s {
			return
		}
	}
	if len(r.Notes) < 50 {
		r.Notes = append(r.Notes, s)
	}
}
func (r *Report) Outcome(h uint64) {
	if len(r.outSet) < outcomeCap {
		r.outSet[h] = struct{}{}
	} else {
		r.OutcomesCap = true
	}
}
func (r *Report) State(h uint64) {
	if len(r.stateSet) < 4*outcomeCap {
		r.stateSet[h] = struct{}{}
	}
}
func (r *Report) Sample(v any) {
	if len(r.Samples) < 4 {
		b, _ := json.Marshal(v)
		r.Samples = append(r.Samples, b)
	}
}
func (r *Report) Expired() bool { return !r.deadline.IsZero() && time.Now().After(r.deadline) }
func (r *Report) Cap(what string) {
	for _, c := range r.CapsHit {
		if c == what {
			return
		}
	}
	r.CapsHit = append(r.CapsHit, what)
}

// AddStats folds an explorer's statistics for one scenario into the report.
func (r *Report) AddStats(sc any, st *explore.Stats) {
	r.Scenarios++
	r.Executions += st.Executions
	r.Transitions += st.Transitions
	if st.MaxDepth > r.MaxDepth {
		r.MaxDepth = st.MaxDepth
	}
	for h := range st.Outcomes {
		r.Outcome(h)
	}
	if st.CapHit {
		r.Cap("explorer-cap")
	}
	for _, f := range st.Failures {
		r.Fail(sc, f.Sig, f.Msg, f.Choices)
	}
}

// SetHistory declares which executions preceded the failures reported next on the same
// live instance (nil: none / fresh instance).
func (r *Report) SetHistory(h []HistItem) { r.history = h }

// Item makes a history item of a scenario and a choice list.
func Item(sc any, choices []int) HistItem {
	b, _ := json.Marshal(sc)
	return HistItem{Scenario: b, Choices: append([]int(nil), choices...)}
}

// Seq explores executions that run one after the other on the same live instance (a
// provisioned route list, a loaded matcher) and attaches to every failure the execution
// that preceded it, so that a failure caused by state carried over from an earlier
// connection is replayable (Failure.History).  The zero value is ready; use a new Seq for
// every fresh instance.
type Seq struct {
	lastSc      any
	lastChoices []int
	has         bool
}

// Done records an execution that ran outside Explore (e.g. a directly evaluated input).
func (q *Seq) Done(sc any, choices []int) { q.lastSc, q.lastChoices, q.has = sc, choices, true }

func (q *Seq) hist() []HistItem {
	if !q.has {
		return nil
	}
	return []HistItem{Item(q.lastSc, q.lastChoices)}
}

// FailAfter reports a failure of an execution that ran after the recorded one.
func (q *Seq) FailAfter(rep *Report, sc any, sig, msg string, choices []int) {
	rep.SetHistory(q.hist())
	rep.Fail(sc, sig, msg, choices)
	rep.SetHistory(nil)
}

// Explore is ex.Explore(body) + AddStats, with history.
func (q *Seq) Explore(ex *explore.Explorer, sc any, rep *Report, body func(*explore.Exec)) {
	before := map[string][]HistItem{}
	ex.Explore(func(x *explore.Exec) {
		body(x)
		for _, f := range x.Failures {
			if _, ok := before[f.Sig]; !ok {
				before[f.Sig] = q.hist()
			}
		}
		q.lastSc, q.lastChoices, q.has = sc, x.Choices(), true
	})
	fs := ex.Stats.Failures
	ex.Stats.Failures = nil
	rep.AddStats(sc, &ex.Stats)
	ex.Stats.Failures = fs
	for _, f := range fs {
		rep.SetHistory(before[f.Sig])
		rep.Fail(sc, f.Sig, f.Msg, f.Choices)
	}
	rep.SetHistory(nil)
}

// Fail records a violation (first per signature is kept: scenarios are enumerated simplest first).
func (r *Report) Fail(sc any, sig, msg string, choices []int) {
	// up to three candidates per signature (from different scenarios) are kept for the
	// determinism guard, which then prefers one that reproduces
	r.Counters["failures_seen:"+sig]++
	if r.Counters["failures_seen:"+sig] > 3 {
		r.Counters["failures_dup:"+sig]++
		return
	}
	r.sigSeen[sig] = true
	b, _ := json.Marshal(sc)
	for _, f := range r.Failures {
		if f.Sig == sig && string(f.Scenario) == string(b) {
			r.Counters["failures_dup:"+sig]++
			return
		}
	}
	r.Failures = append(r.Failures, Failure{Sig: sig, Msg: msg, Scenario: b, Choices: choices, Order: r.curIdx, History: r.history})
}

// Harness is what a property check provides.
type Harness struct {
	ID          string
	Level       string // evidence level
	Rule        string
	Assumptions []string
	Bounds      func(tier string) map[string]any // reported in evidence
	// Scenarios enumerates the outer (configuration x input) space, simplest first.
	Scenarios func(tier string, yield func(sc any) bool)
	// Run explores one scenario exhaustively within the tier's bounds.
	Run func(tier string, sc any, rep *Report)
	// ReplayH (optional) replays an execution on a fresh instance after the given earlier
	// executions; used when a failure does not reproduce alone (see Failure.History).
	ReplayH func(history []HistItem, sc any, choices []int) []explore.Failure
	// DecodeScenario rebuilds a scenario from its JSON form (for replay).
	DecodeScenario func(raw json.RawMessage) (any, error)
	// Replay runs one scenario with one fixed choice list and returns the failures it shows.
	Replay func(sc any, choices []int) []explore.Failure
	// Budget returns the wall-clock budget for the tier; when it expires the run stops
	// with exhaustive=false (never a violation).
	Budget func(tier string) time.Duration
	// Workers overrides the number of shards (0 = all cores).
	Workers func(tier string) int
	// PostProcess runs in the parent after the shards' reports have been merged (e.g. to parse
	// race detector logs written by the workers into workDir).
	PostProcess func(rep *Report, workDir string)
	// ProcsPerWorker is GOMAXPROCS of each worker subprocess (default 1).
	ProcsPerWorker int
	// SingleProcess runs shards in-process (harness is goroutine-safe); otherwise subprocesses.
	InProcess bool
}

type knownFile struct {
	Findings []struct {
		Property  string `json:"property"`
		Kind      string `json:"kind"`
		Signature string `json:"signature"`
		Where     string `json:"where"`
		Fails     string `json:"fails"`
		Commit    string `json:"commit"`
	} `json:"findings"`
}

func verifDir() string {
	if d := os.Getenv("VERIF_DIR"); d != "" {
		return d
	}
	return "/verif"
}

// Main is the entry point of every check binary.
func Main(h *Harness) {
	// a harness may serve as a part of another property's check (e.g. the UDP demultiplexing
	// harness as the datagram part of C01): the driver then names the property to report under
	if id := os.Getenv("VERIF_ID"); id != "" {
		h.ID = id
	}
	tier := flag.String("tier", "quick", "quick|thorough")
	shard := flag.String("shard", "", "i/n (worker mode)")
	replay := flag.String("replay", "", "replay file")
	out := flag.String("out", "", "worker report file")
	flag.Parse()
	if t := os.Getenv("VERIF_TIER"); t != "" && *shard == "" && *replay == "" && !flagSet("tier") {
		*tier = t
	}
	seed, _ := strconv.ParseInt(os.Getenv("VERIF_SEED"), 10, 64)
	switch {
	case *replay != "":
		os.Exit(doReplay(h, *replay))
	case *shard != "":
		var i, n int
		fmt.Sscanf(*shard, "%d/%d", &i, &n)
		quietStderr(*out + ".crash")
		rep := runShard(h, *tier, i, n, seed, *out)
		writeJSON(*out, rep)
	default:
		os.Exit(parent(h, *tier, seed))
	}
}

// quietStderr points fd 2 at /dev/null (un-injectable development loggers inside caddy
// modules write there) and sends fatal crash output to a file instead.
func quietStderr(crashFile string) {
	if os.Getenv("VERIF_KEEP_STDERR") != "" {
		return
	}
	if f, err := os.Create(crashFile); err == nil {
		debug.SetCrashOutput(f, debug.CrashOptions{})
	}
	if dn, err := os.OpenFile("/dev/null", os.O_WRONLY, 0); err == nil {
		syscall.Dup2(int(dn.Fd()), 2)
	}
}

func flagSet(name string) bool {
	set := false
	flag.Visit(func(f *flag.Flag) {
		if f.Name == name {
			set = true
		}
	})
	return set
}

func writeJSON(path string, v any) {
	b, err := json.Marshal(v)
	if err != nil {
		panic(err)
	}
	if path == "" || path == "-" {
		os.Stdout.Write(b)
		return
	}
	if err := os.WriteFile(path, b, 0o644); err != nil {
		panic(err)
	}
}

func runShard(h *Harness, tier string, i, n int, seed int64, outPath string) *Report {
	rep := NewReport()
	rep.Tier = tier
	if h.Budget != nil {
		rep.deadline = time.Now().Add(h.Budget(tier))
	}
	// watchdog: if the explorer shows no activity for a long real time the execution is
	// blocked in code outside the scheduler's control (FOREIGN-BLOCK).  That is a harness
	// limitation, never a verdict: the shard writes what it has and stops.
	if outPath != "" {
		go func() {
			last, still := explore.Heartbeat, 0
			for {
				time.Sleep(5 * time.Second)
				cur := explore.Heartbeat
				if cur != last || cur == 0 {
					last, still = cur, 0
					continue
				}
				still++
				if still >= 8 {
					rep.Incident("FOREIGN-BLOCK")
					buf := make([]byte, 1<<20)
					buf = buf[:runtime.Stack(buf, true)]
					rep.Note("FOREIGN-BLOCK in scenario " + string(rep.curScenario))
					os.WriteFile(outPath+".foreign-block.txt", buf, 0o644)
					rep.finalize()
					writeJSON(outPath, rep)
					os.Exit(0)
				}
			}
		}()
	}
	idx := 0
	// the seed only rotates which shard gets which residue class
	rot := int(seed % int64(n))
	if rot < 0 {
		rot = -rot
	}
	h.Scenarios(tier, func(sc any) bool {
		mine := (idx+rot)%n == i
		rep.curIdx = int64(idx)
		idx++
		if !mine {
			return true
		}
		if rep.Expired() {
			rep.Cap("wall-budget")
			return false
		}
		rep.Sample(sc)
		rep.curScenario, _ = json.Marshal(sc)
		func() {
			// a replayed prefix that no longer fits (the program under test behaved differently in
			// two executions of one scenario, e.g. through state it keeps across executions) ends
			// this scenario, not the worker: the other scenarios of the shard are still explored
			defer func() {
				if r := recover(); r != nil {
					ne, ok := r.(explore.NondetError)
					if !ok {
						panic(r)
					}
					rep.Incident("HARNESS-NONDETERMINISM")
					rep.Note(fmt.Sprintf("scenario %s abandoned: %v", rep.curScenario, ne))
				}
			}()
			h.Run(tier, sc, rep)
		}()
		return true
	})
	// determinism guard: a failure is only believed if 5 replays show it again
	for k := range rep.Failures {
		f := &rep.Failures[k]
		f.Stable = true
		if h.Replay == nil || h.DecodeScenario == nil {
			continue
		}
		sc, err := h.DecodeScenario(f.Scenario)
		if err != nil {
			f.Stable = false
			continue
		}
		stable := func(hist []HistItem) bool {
			for t := 0; t < 5; t++ {
				found := false
				for _, g := range safeReplay(h, hist, sc, f.Choices) {
					if g.Sig == f.Sig {
						found = true
					}
				}
				if !found {
					return false
				}
			}
			return true
		}
		switch {
		case stable(nil):
			f.History = nil
		case len(f.History) > 0 && h.ReplayH != nil && stable(f.History):
			// reproducible, but only after earlier executions on the same instance
			rep.Count("failures_needing_history", 1)
		default:
			f.Stable = false
			rep.Incident("HARNESS-NONDETERMINISM")
		}
	}
	// one failure per signature: the first that reproduces, else the first
	var kept []Failure
	for _, f := range rep.Failures {
		at := -1
		for i := range kept {
			if kept[i].Sig == f.Sig {
				at = i
			}
		}
		switch {
		case at < 0:
			kept = append(kept, f)
		case !kept[at].Stable && f.Stable:
			kept[at] = f
		}
	}
	rep.Failures = kept
	rep.finalize()
	return rep
}

func (rep *Report) finalize() {
	rep.Outcomes = rep.Outcomes[:0]
	for o := range rep.outSet {
		rep.Outcomes = append(rep.Outcomes, o)
	}
	rep.States += int64(len(rep.stateSet))
}

func safeReplay(h *Harness, hist []HistItem, sc any, choices []int) (fs []explore.Failure) {
	defer func() {
		if r := recover(); r != nil {
			if _, ok := r.(explore.NondetError); ok {
				fs = nil
				return
			}
			panic(r)
		}
	}()
	if len(hist) > 0 && h.ReplayH != nil {
		return h.ReplayH(hist, sc, choices)
	}
	return h.Replay(sc, choices)
}

func parent(h *Harness, tier string, seed int64) int {
	start := time.Now()
	vd := verifDir()
	work := filepath.Join(vd, ".work", strings.ToLower(h.ID))
	os.MkdirAll(work, 0o755)
	if part := os.Getenv("VERIF_PART"); part != "" {
		os.MkdirAll(filepath.Join(work, part), 0o755)
	}
	n := runtime.NumCPU()
	if h.Workers != nil {
		if w := h.Workers(tier); w > 0 {
			n = w
		}
	}
	self, _ := os.Executable()
	if old, _ := filepath.Glob(filepath.Join(work, os.Getenv("VERIF_PART"), "race.*")); len(old) > 0 {
		for _, f := range old {
			os.Remove(f)
		}
	}
	reps := make([]*Report, n)
	var wg sync.WaitGroup
	crashed := make([]string, n)
	for i := 0; i < n; i++ {
		wg.Add(1)
		go func(i int) {
			defer wg.Done()
			outf := filepath.Join(work, os.Getenv("VERIF_PART"), fmt.Sprintf("shard-%d.json", i))
			os.Remove(outf)
			cmd := exec.Command(self, "-tier", tier, "-shard", fmt.Sprintf("%d/%d", i, n), "-out", outf)
			procs := 1
			if h.ProcsPerWorker > 0 {
				procs = h.ProcsPerWorker
			}
			cmd.Env = append(os.Environ(), "VERIF_SEED="+strconv.FormatInt(seed, 10), "GOMAXPROCS="+strconv.Itoa(procs),
				"GORACE=halt_on_error=0 exitcode=0 log_path="+filepath.Join(work, os.Getenv("VERIF_PART"), fmt.Sprintf("race.%d", i)))
			logf, _ := os.Create(filepath.Join(work, os.Getenv("VERIF_PART"), fmt.Sprintf("shard-%d.log", i)))
			cmd.Stdout, cmd.Stderr = logf, logf
			err := cmd.Run()
			logf.Close()
			b, rerr := os.ReadFile(outf)
			if err != nil || rerr != nil {
				crashed[i] = fmt.Sprintf("shard %d: %v (log %s)", i, err, logf.Name())
				return
			}
			r := NewReport()
			if json.Unmarshal(b, r) != nil {
				crashed[i] = fmt.Sprintf("shard %d: bad report", i)
				return
			}
			reps[i] = r
		}(i)
	}
	wg.Wait()
	m := NewReport()
	for i, r := range reps {
		if r == nil {
			m.Cap("worker-crashed")
			m.Note(crashed[i])
			fmt.Fprintln(os.Stderr, "WORKER-CRASH", crashed[i])
			continue
		}
		m.Scenarios += r.Scenarios
		m.Executions += r.Executions
		m.Transitions += r.Transitions
		m.States += r.States
		m.Nontrivial += r.Nontrivial
		if r.MaxDepth > m.MaxDepth {
			m.MaxDepth = r.MaxDepth
		}
		for _, o := range r.Outcomes {
			m.Outcome(o)
		}
		m.OutcomesCap = m.OutcomesCap || r.OutcomesCap
		for k, v := range r.Incidents {
			m.Incidents[k] += v
		}
		for k, v := range r.Counters {
			m.Counters[k] += v
		}
		for _, c := range r.CapsHit {
			m.Cap(c)
		}
		for _, s := range r.Notes {
			m.Note(s)
		}
		if len(m.Samples) < 6 && len(r.Samples) > 0 {
			m.Samples = append(m.Samples, r.Samples[0])
			if len(r.Samples) > 1 && len(m.Samples) < 6 {
				m.Samples = append(m.Samples, r.Samples[len(r.Samples)-1])
			}
		}
		for _, f := range r.Failures {
			if !m.sigSeen[f.Sig] {
				m.sigSeen[f.Sig] = true
				m.Failures = append(m.Failures, f)
				continue
			}
			for k := range m.Failures {
				if m.Failures[k].Sig == f.Sig && ((f.Stable && !m.Failures[k].Stable) || (f.Stable == m.Failures[k].Stable && f.Order < m.Failures[k].Order)) {
					m.Failures[k] = f // a reproducible instance first, then the simplest scenario
				}
			}
		}
	}
	if h.PostProcess != nil {
		n0 := len(m.Failures)
		h.PostProcess(m, filepath.Join(work, os.Getenv("VERIF_PART")))
		for k := n0; k < len(m.Failures); k++ {
			m.Failures[k].Stable = true
		}
	}
	sort.Slice(m.Failures, func(a, b int) bool { return m.Failures[a].Sig < m.Failures[b].Sig })

	// known findings
	var kf knownFile
	if b, err := os.ReadFile(filepath.Join(vd, "known_findings.json")); err == nil {
		json.Unmarshal(b, &kf)
	}
	known := map[string]string{}
	for _, f := range kf.Findings {
		if f.Property == h.ID && f.Kind == "known" {
			known[f.Signature] = f.Fails
		}
	}
	violations := 0
	knownSeen := []string{}
	w := bufio.NewWriter(os.Stdout)
	os.MkdirAll(filepath.Join(vd, "replays"), 0o755)
	for _, f := range m.Failures {
		if !f.Stable {
			fmt.Fprintf(w, "HARNESS-NONDETERMINISM property=%s sig=%s (not reported as violation)\n  %s\n", h.ID, f.Sig, f.Msg)
			continue
		}
		if what, ok := known[f.Sig]; ok {
			fmt.Fprintf(w, "KNOWN-FINDING: property=%s %s [%s]\n", h.ID, what, f.Sig)
			knownSeen = append(knownSeen, f.Sig)
			continue
		}
		violations++
		rp := filepath.Join(vd, "replays", fmt.Sprintf("%s-%s.json", h.ID, sanitize(f.Sig)))
		writeJSON(rp, map[string]any{"property": h.ID, "part": os.Getenv("VERIF_PART"), "sig": f.Sig, "msg": f.Msg, "scenario": f.Scenario, "choices": f.Choices, "history": f.History})
		fmt.Fprintf(w, "VIOLATION property=%s replay=%s\n  sig=%s\n  %s\n", h.ID, rp, f.Sig, f.Msg)
	}
	exhaustive := len(m.CapsHit) == 0 && len(m.Incidents) == 0
	cov := map[string]any{
		"evaluations":                      m.Executions,
		"distinct_nontrivial":              nontrivial(m),
		"rule":                             h.Rule,
		"samples":                          m.Samples,
		"states":                           maxi(m.States, int64(len(m.outSet))),
		"transitions":                      m.Transitions,
		"traces_validated_against_impl":    m.Executions,
		"scenarios":                        m.Scenarios,
		"max_choice_depth":                 m.MaxDepth,
		"distinct_outcomes":                len(m.outSet),
		"distinct_outcomes_is_lower_bound": m.OutcomesCap,
		"exhaustive":                       exhaustive,
		"caps_hit":                         m.CapsHit,
		"harness_incidents":                m.Incidents,
		"counters":                         m.Counters,
		"known_findings_seen":              knownSeen,
		"notes":                            m.Notes,
		"workers":                          n,
	}
	if h.Bounds != nil {
		cov["bounds"] = h.Bounds(tier)
	}
	if len(m.Samples) == 0 {
		cov["samples"] = []string{"(no scenario ran)"}
	}
	ev := map[string]any{
		"property_id": h.ID, "tier": tier, "seed": seed, "level": h.Level, "coverage": cov,
		"assumptions": h.Assumptions, "wall_s": time.Since(start).Seconds(), "violations": violations,
	}
	os.MkdirAll(filepath.Join(vd, "evidence"), 0o755)
	b, _ := json.MarshalIndent(ev, "", " ")
	evPath := filepath.Join(vd, "evidence", h.ID+".json")
	if part := os.Getenv("VERIF_PART"); part != "" {
		// one of several builds of the same check: the driver merges the parts
		evPath = filepath.Join(work, "evidence-"+part+".json")
	}
	os.WriteFile(evPath, b, 0o644)
	fmt.Fprintf(w, "%s %s: scenarios=%d executions=%d transitions=%d outcomes=%d states=%d violations=%d known=%d exhaustive=%v caps=%v incidents=%v wall=%.1fs\n",
		h.ID, tier, m.Scenarios, m.Executions, m.Transitions, len(m.outSet), m.States, violations, len(knownSeen), exhaustive, m.CapsHit, m.Incidents, time.Since(start).Seconds())
	w.Flush()
	if violations > 0 {
		return 1
	}
	return 0
}

// nontrivial: harnesses that enumerate distinct cases count the non-trivial ones themselves
// (Report.Nontrivial); otherwise the number of distinct observed outcomes is used.
func nontrivial(m *Report) int64 {
	if m.Nontrivial > 0 {
		return m.Nontrivial
	}
	return int64(len(m.outSet))
}

func maxi(a, b int64) int64 {
	if a > b {
		return a
	}
	return b
}

func sanitize(s string) string {
	var sb strings.Builder
	for _, c := range s {
		if (c >= 'a' && c <= 'z') || (c >= 'A' && c <= 'Z') || (c >= '0' && c <= '9') || c == '-' || c == '_' || c == '.' {
			sb.WriteRune(c)
		} else {
			sb.WriteByte('_')
		}
	}
	r := sb.String()
	if len(r) > 80 {
		r = r[:80]
	}
	return r
}

func doReplay(h *Harness, path string) int {
	b, err := os.ReadFile(path)
	if err != nil {
		fmt.Println("replay:", err)
		return 2
	}
	var rf struct {
		Sig      string          `json:"sig"`
		Scenario json.RawMessage `json:"scenario"`
		Choices  []int           `json:"choices"`
		History  []HistItem      `json:"history"`
	}
	if err := json.Unmarshal(b, &rf); err != nil {
		fmt.Println("replay:", err)
		return 2
	}
	sc, err := h.DecodeScenario(rf.Scenario)
	if err != nil {
		fmt.Println("replay:", err)
		return 2
	}
	fs := safeReplay(h, rf.History, sc, rf.Choices)
	hit := false
	for _, f := range fs {
		fmt.Printf("replayed failure sig=%s\n  %s\n", f.Sig, f.Msg)
		if f.Sig == rf.Sig {
			hit = true
		}
	}
	if hit {
		fmt.Printf("VIOLATION property=%s replay=%s\n", h.ID, path)
		return 1
	}
	fmt.Printf("replay of %s: recorded violation %q does not reproduce on the current tree\n", path, rf.Sig)
	return 0
}
