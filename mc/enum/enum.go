// Package enum is E5: bounded-exhaustive input enumerators.  Alphabets and seed corpora
// are extracted from the module's own source at check time (go/parser), so a change
// that introduces a new magic value or a new test vector enlarges the enumerated space.
package enum

import (
	"encoding/base64"
	"encoding/hex"
	"go/ast"
	"go/parser"
	"go/token"
	"os"
	"path/filepath"
	"sort"
	"strconv"
	"strings"
)

// Generic boundary bytes.
var Boundary = []byte{0x00, 0x01, 0x02, 0x03, 0x04, 0x05, 0x08, 0x0A, 0x0D, 0x10, 0x16, 0x7F, 0x80, 0xE0, 0xFF}

func parseDir(dir string, tests bool) []*ast.File {
	ents, _ := os.ReadDir(dir)
	fset := token.NewFileSet()
	var out []*ast.File
	for _, e := range ents {
		n := e.Name()
		if !strings.HasSuffix(n, ".go") || strings.HasSuffix(n, "_test.go") != tests {
			continue
		}
		f, err := parser.ParseFile(fset, filepath.Join(dir, n), nil, 0)
		if err == nil {
			out = append(out, f)
		}
	}
	return out
}

// Alphabet returns Boundary plus every byte-sized integer literal, character literal and
// first/last byte of every string literal found in the package's non-test source
// (at most max bytes, generic boundary bytes first).
func Alphabet(dir string, max int) []byte {
	seen := map[byte]bool{}
	var out []byte
	add := func(b byte) {
		if !seen[b] {
			seen[b] = true
			out = append(out, b)
		}
	}
	for _, b := range Boundary {
		add(b)
	}
	var lits []byte
	for _, f := range parseDir(dir, false) {
		ast.Inspect(f, func(n ast.Node) bool {
			bl, ok := n.(*ast.BasicLit)
			if !ok {
				return true
			}
			switch bl.Kind {
			case token.INT:
				if v, err := strconv.ParseUint(bl.Value, 0, 64); err == nil && v < 256 {
					lits = append(lits, byte(v))
				}
			case token.CHAR:
				if v, _, _, err := strconv.UnquoteChar(strings.Trim(bl.Value, "'"), '\''); err == nil && v < 256 {
					lits = append(lits, byte(v))
				}
			case token.STRING:
				if s, err := strconv.Unquote(bl.Value); err == nil && len(s) > 0 && len(s) < 64 && !strings.Contains(s, "/") {
					lits = append(lits, s[0], s[len(s)-1])
				}
			}
			return true
		})
	}
	// most frequent literals first
	cnt := map[byte]int{}
	for _, b := range lits {
		cnt[b]++
	}
	var ks []byte
	for b := range cnt {
		ks = append(ks, b)
	}
	sort.Slice(ks, func(i, j int) bool {
		if cnt[ks[i]] != cnt[ks[j]] {
			return cnt[ks[i]] > cnt[ks[j]]
		}
		return ks[i] < ks[j]
	})
	for _, b := range ks {
		if len(out) >= max {
			break
		}
		add(b)
	}
	return out
}

// CorpusFromTests extracts every []byte / []uint8 composite literal made of literals and
// every string literal of at least 4 bytes from the package's *_test.go files: the
// repository's own well-formed (and deliberately malformed) protocol messages.
func CorpusFromTests(dir string) [][]byte {
	seen := map[string]bool{}
	var out [][]byte
	add := func(b []byte) {
		if len(b) >= 2 && len(b) <= 20000 && !seen[string(b)] {
			seen[string(b)] = true
			out = append(out, b)
		}
	}
	for _, f := range parseDir(dir, true) {
		ast.Inspect(f, func(n ast.Node) bool {
			switch v := n.(type) {
			case *ast.CompositeLit:
				at, ok := v.Type.(*ast.ArrayType)
				if !ok {
					return true
				}
				id, ok := at.Elt.(*ast.Ident)
				if !ok || (id.Name != "byte" && id.Name != "uint8") {
					return true
				}
				var b []byte
				for _, e := range v.Elts {
					bl, ok := e.(*ast.BasicLit)
					if !ok {
						return true
					}
					switch bl.Kind {
					case token.INT:
						x, err := strconv.ParseUint(bl.Value, 0, 8)
						if err != nil {
							return true
						}
						b = append(b, byte(x))
					case token.CHAR:
						x, _, _, err := strconv.UnquoteChar(strings.Trim(bl.Value, "'"), '\'')
						if err != nil || x > 255 {
							return true
						}
						b = append(b, byte(x))
					default:
						return true
					}
				}
				add(b)
			case *ast.BasicLit:
				if v.Kind == token.STRING {
					if s, err := strconv.Unquote(v.Value); err == nil && len(s) >= 4 {
						add([]byte(s))
						// test vectors are often written down base64- or hex-encoded
						if len(s) >= 16 {
							if b, err := base64.StdEncoding.DecodeString(s); err == nil {
								add(b)
							}
							if b, err := hex.DecodeString(s); err == nil {
								add(b)
							}
						}
					}
				}
			}
			return true
		})
	}
	sort.Slice(out, func(i, j int) bool {
		if len(out[i]) != len(out[j]) {
			return len(out[i]) < len(out[j])
		}
		return string(out[i]) < string(out[j])
	})
	return out
}

// AllStrings yields every string over alphabet a of length 0..maxLen, shortest first.
// The slice passed to yield is reused.
func AllStrings(a []byte, maxLen int, yield func([]byte) bool) {
	for l := 0; l <= maxLen; l++ {
		idx := make([]int, l)
		buf := make([]byte, l)
		for {
			for i, k := range idx {
				buf[i] = a[k]
			}
			if !yield(buf) {
				return
			}
			i := l - 1
			for ; i >= 0; i-- {
				idx[i]++
				if idx[i] < len(a) {
					break
				}
				idx[i] = 0
			}
			if i < 0 {
				break
			}
		}
	}
}

// CountAllStrings returns the number of strings AllStrings yields.
func CountAllStrings(n, maxLen int) int64 {
	var t, p int64 = 0, 1
	for l := 0; l <= maxLen; l++ {
		t += p
		p *= int64(n)
	}
	return t
}

// Positions returns the byte positions of a message that mutation enumerators visit: all
// of them up to 96 bytes, otherwise the first 64, the last 16 and every 32nd in between.
func Positions(n int) []int {
	var out []int
	for i := 0; i < n; i++ {
		if n <= 96 || i < 64 || i >= n-16 || i%32 == 0 {
			out = append(out, i)
		}
	}
	return out
}

// Mutations yields, for a seed message m: m itself, every proper prefix (per Positions),
// m with 1..3 trailing bytes appended, and for every visited position every substitution
// from subst plus +1/-1 and the single-bit flips of that byte.  Slices are fresh.
func Mutations(m []byte, subst []byte, yield func([]byte) bool) {
	cp := func(b []byte) []byte { return append([]byte(nil), b...) }
	if !yield(cp(m)) {
		return
	}
	for _, i := range Positions(len(m)) {
		if !yield(cp(m[:i])) {
			return
		}
	}
	for _, ext := range [][]byte{{0}, {0xff}, {0x0d, 0x0a}, {0, 0, 0}} {
		if !yield(append(cp(m), ext...)) {
			return
		}
	}
	for _, i := range Positions(len(m)) {
		vals := map[byte]bool{}
		for _, s := range subst {
			vals[s] = true
		}
		vals[m[i]+1], vals[m[i]-1] = true, true
		for bit := 0; bit < 8; bit++ {
			vals[m[i]^(1<<bit)] = true
		}
		delete(vals, m[i])
		ks := make([]int, 0, len(vals))
		for v := range vals {
			ks = append(ks, int(v))
		}
		sort.Ints(ks)
		for _, v := range ks {
			x := cp(m)
			x[i] = byte(v)
			if !yield(x) {
				return
			}
		}
	}
}

// StringVarFromTests returns the value of the package-level string variable or constant `name`
// declared in the test files of dir (a literal or a '+' concatenation of literals); "" if absent.
func StringVarFromTests(dir, name string) string {
	var eval func(e ast.Expr) (string, bool)
	eval = func(e ast.Expr) (string, bool) {
		switch v := e.(type) {
		case *ast.BasicLit:
			if v.Kind == token.STRING {
				s, err := strconv.Unquote(v.Value)
				return s, err == nil
			}
		case *ast.BinaryExpr:
			if v.Op == token.ADD {
				a, ok1 := eval(v.X)
				b, ok2 := eval(v.Y)
				return a + b, ok1 && ok2
			}
		case *ast.ParenExpr:
			return eval(v.X)
		}
		return "", false
	}
	for _, f := range parseDir(dir, true) {
		for _, d := range f.Decls {
			gd, ok := d.(*ast.GenDecl)
			if !ok {
				continue
			}
			for _, sp := range gd.Specs {
				vs, ok := sp.(*ast.ValueSpec)
				if !ok {
					continue
				}
				for i, n := range vs.Names {
					if n.Name == name && i < len(vs.Values) {
						if s, ok := eval(vs.Values[i]); ok {
							return s
						}
					}
				}
			}
		}
	}
	return ""
}
