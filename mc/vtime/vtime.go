// Package vtime replaces the time package's clock, sleeps, timers and tickers in rewritten
// code with the scheduler's virtual clock.  Computation takes no virtual time; time passes
// only when every thread is blocked (or as an explored deviation).
package vtime

import (
	"time"

	"verif/mc/vsched"
)

// SyncTimerChan selects the Go >= 1.23 timer-channel semantics (Stop/Reset discard a stale
// tick).  The repository's go.mod says go 1.22, i.e. the old semantics, which is the default.
var SyncTimerChan = false

func Now() time.Time {
	if vsched.S == nil {
		return time.Now()
	}
	return vsched.S.Now()
}
func Since(t time.Time) time.Duration { return Now().Sub(t) }
func Until(t time.Time) time.Duration { return t.Sub(Now()) }

func Sleep(d time.Duration) {
	if vsched.S == nil {
		time.Sleep(d)
		return
	}
	dl := vsched.After(int64(d))
	if d <= 0 {
		vsched.Point("sleep0")
		return
	}
	a := vsched.NewAlarm(dl, nil)
	vsched.Yield("sleep", func() bool { return vsched.NowNS() >= dl })
	a.Cancel()
}

type Timer struct {
	C    <-chan time.Time
	c    chan time.Time
	a    *vsched.Alarm
	f    func()
	real *time.Timer
}

func (t *Timer) fire() {
	if t.f != nil {
		vsched.GoNamed("afterfunc", t.f)
		return
	}
	select {
	case t.c <- vsched.S.Now():
	default:
	}
}

func NewTimer(d time.Duration) *Timer {
	if vsched.S == nil {
		rt := time.NewTimer(d)
		return &Timer{C: rt.C, real: rt}
	}
	t := &Timer{c: make(chan time.Time, 1)}
	t.C = t.c
	t.a = vsched.NewAlarm(vsched.After(int64(d)), t.fire)
	return t
}

func AfterFunc(d time.Duration, f func()) *Timer {
	if vsched.S == nil {
		return &Timer{real: time.AfterFunc(d, f)}
	}
	t := &Timer{f: f}
	t.a = vsched.NewAlarm(vsched.After(int64(d)), t.fire)
	return t
}

func After(d time.Duration) <-chan time.Time { return NewTimer(d).C }

func (t *Timer) Stop() bool {
	if t.real != nil {
		return t.real.Stop()
	}
	vsched.Point("timer.Stop")
	was := t.a.Cancel()
	if SyncTimerChan && t.c != nil {
		select {
		case <-t.c:
		default:
		}
	}
	return was
}

func (t *Timer) Reset(d time.Duration) bool {
	if t.real != nil {
		return t.real.Reset(d)
	}
	vsched.Point("timer.Reset")
	was := t.a.Active
	if SyncTimerChan && t.c != nil {
		select {
		case <-t.c:
		default:
		}
	}
	t.a.Rearm(vsched.After(int64(d)))
	return was
}

type Ticker struct {
	C    <-chan time.Time
	c    chan time.Time
	a    *vsched.Alarm
	d    time.Duration
	real *time.Ticker
}

func NewTicker(d time.Duration) *Ticker {
	if d <= 0 {
		panic("non-positive interval for NewTicker")
	}
	if vsched.S == nil {
		rt := time.NewTicker(d)
		return &Ticker{C: rt.C, real: rt}
	}
	t := &Ticker{c: make(chan time.Time, 1), d: d}
	t.C = t.c
	t.a = vsched.NewAlarm(vsched.After(int64(d)), nil)
	t.a.Fire = func() {
		select {
		case t.c <- vsched.S.Now():
		default:
		}
		t.a.Rearm(t.a.When + int64(t.d))
	}
	return t
}

func (t *Ticker) Stop() {
	if t.real != nil {
		t.real.Stop()
		return
	}
	t.a.Cancel()
}

func (t *Ticker) Reset(d time.Duration) {
	if t.real != nil {
		t.real.Reset(d)
		return
	}
	t.d = d
	t.a.Rearm(vsched.After(int64(d)))
}

func Tick(d time.Duration) <-chan time.Time { return NewTicker(d).C }
