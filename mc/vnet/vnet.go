// Package vnet is E4: an in-memory network for scheduled executions.  Connections are
// reliable ordered byte streams with half-close, abrupt close, read deadlines on the
// virtual clock and typed addresses; every blocking operation is a scheduler yield and
// every read's length is an explorer choice.
package vnet

import (
	"errors"
	"fmt"
	"io"
	"net"
	"os"
	"sync"
	"time"

	"verif/mc/explore"
	"verif/mc/vsched"
)

// Conn is one end of a virtual stream connection.
type Conn struct {
	Name          string
	peer          *Conn
	mu            sync.Mutex // real mutex: protects harness-visible fields under -race
	inbox         []byte
	eof           bool // peer half-closed (FIN) after inbox
	reset         bool // peer closed abruptly: reads fail once inbox is drained
	closed        bool // closed locally
	wclosed       bool
	rdl           time.Time
	local, remote net.Addr
	NoCloseWrite  bool // behave like a transport without half-close (hide CloseWrite via Plain())

	// bookkeeping for oracles
	Reads        int
	BytesRead    int
	BytesIn      int // bytes ever delivered into the inbox
	Written      []byte
	ReadAt       []int64 // virtual time of every read that returned data
	ReadN        []int
	ReadCallAt   []int64 // virtual time of every Read call (attempt)
	DeadlineSets int
	Menu         func(max int) []int
	// EOFWithData: the read that drains the inbox after the peer's FIN may return the bytes
	// together with io.EOF (io.Reader allows it; crypto/tls does it when close_notify follows
	// the data).  A read deviation.
	EOFWithData bool
}

// Pipe creates a connected pair.
func Pipe(aName, bName string, aAddr, bAddr net.Addr) (*Conn, *Conn) {
	a := &Conn{Name: aName, local: aAddr, remote: bAddr}
	b := &Conn{Name: bName, local: bAddr, remote: aAddr}
	a.peer, b.peer = b, a
	return a, b
}

func TCP(ip string, port int) net.Addr { return &net.TCPAddr{IP: net.ParseIP(ip), Port: port} }
func UDP(ip string, port int) net.Addr { return &net.UDPAddr{IP: net.ParseIP(ip), Port: port} }

func (c *Conn) readable() bool {
	if c.closed || len(c.inbox) > 0 || c.eof || c.reset {
		return true
	}
	return !c.rdl.IsZero() && !vsched.S.Now().Before(c.rdl)
}

func (c *Conn) Read(p []byte) (int, error) {
	c.Reads++
	c.ReadCallAt = append(c.ReadCallAt, vsched.NowNS())
	if len(p) == 0 {
		return 0, nil
	}
	var alarm *vsched.Alarm
	if !c.rdl.IsZero() && !c.readable() {
		alarm = vsched.NewAlarm(vsched.NS(c.rdl), nil)
	}
	vsched.Yield("read:"+c.Name, c.readable)
	if alarm != nil {
		alarm.Cancel()
	}
	c.mu.Lock()
	defer c.mu.Unlock()
	switch {
	case c.closed:
		return 0, net.ErrClosed
	case len(c.inbox) > 0:
		max := len(c.inbox)
		if len(p) < max {
			max = len(p)
		}
		n := max
		if max > 1 {
			if c.Menu != nil {
				m := c.Menu(max)
				n = m[vsched.S.X.Choose(explore.KRead, len(m))]
			} else if k := vsched.S.X.Choose(explore.KRead, max); k > 0 {
				n = k
			}
		}
		copy(p, c.inbox[:n])
		c.inbox = c.inbox[n:]
		c.BytesRead += n
		c.ReadAt = append(c.ReadAt, vsched.NowNS())
		c.ReadN = append(c.ReadN, n)
		if c.EOFWithData && c.eof && len(c.inbox) == 0 && vsched.S.X.Choose(explore.KRead, 2) == 1 {
			return n, io.EOF
		}
		return n, nil
	case c.reset:
		return 0, errors.New("read: connection reset by peer")
	case c.eof:
		return 0, io.EOF
	default:
		return 0, os.ErrDeadlineExceeded
	}
}

func (c *Conn) Write(p []byte) (int, error) {
	vsched.Point("write:" + c.Name)
	c.mu.Lock()
	defer c.mu.Unlock()
	if c.closed || c.wclosed {
		return 0, net.ErrClosed
	}
	q := c.peer
	if q.closed {
		return 0, errors.New("write: broken pipe")
	}
	q.mu.Lock()
	q.inbox = append(q.inbox, p...)
	q.BytesIn += len(p)
	q.mu.Unlock()
	c.Written = append(c.Written, p...)
	return len(p), nil
}

// CloseWrite half-closes: the peer reads EOF after what was written.
func (c *Conn) CloseWrite() error {
	vsched.Point("closewrite:" + c.Name)
	c.mu.Lock()
	defer c.mu.Unlock()
	if c.closed {
		return net.ErrClosed
	}
	c.wclosed = true
	c.peer.mu.Lock()
	c.peer.eof = true
	c.peer.mu.Unlock()
	return nil
}

// Close closes both directions; the peer sees EOF after buffered data (orderly close).
func (c *Conn) Close() error {
	vsched.Point("close:" + c.Name)
	c.mu.Lock()
	defer c.mu.Unlock()
	if c.closed {
		return net.ErrClosed
	}
	c.closed = true
	c.peer.mu.Lock()
	c.peer.eof = true
	c.peer.mu.Unlock()
	return nil
}

// Abort closes abruptly: the peer's reads fail with a reset once buffered data is drained.
func (c *Conn) Abort() {
	vsched.Point("abort:" + c.Name)
	c.mu.Lock()
	c.closed = true
	c.mu.Unlock()
	c.peer.mu.Lock()
	c.peer.reset = true
	c.peer.mu.Unlock()
}

func (c *Conn) LocalAddr() net.Addr  { return c.local }
func (c *Conn) RemoteAddr() net.Addr { return c.remote }
func (c *Conn) SetDeadline(t time.Time) error {
	return c.SetReadDeadline(t)
}
func (c *Conn) SetReadDeadline(t time.Time) error {
	c.mu.Lock()
	c.rdl = t
	c.DeadlineSets++
	c.mu.Unlock()
	return nil
}
func (c *Conn) SetWriteDeadline(time.Time) error { return nil }

// State accessors for oracles.
func (c *Conn) Closed() bool            { c.mu.Lock(); defer c.mu.Unlock(); return c.closed }
func (c *Conn) WriteClosed() bool       { c.mu.Lock(); defer c.mu.Unlock(); return c.wclosed || c.closed }
func (c *Conn) ReadDeadline() time.Time { c.mu.Lock(); defer c.mu.Unlock(); return c.rdl }
func (c *Conn) Pending() int            { c.mu.Lock(); defer c.mu.Unlock(); return len(c.inbox) }
func (c *Conn) PeerEOF() bool           { c.mu.Lock(); defer c.mu.Unlock(); return c.eof }

// Plain returns the connection without its CloseWrite method (a transport that cannot
// half-close).
func (c *Conn) Plain() net.Conn { return plainConn{c} }

type plainConn struct{ *Conn }

func (p plainConn) CloseWrite() {} // different signature: does not satisfy the half-closer interface

// Listener is a virtual stream listener.
type Listener struct {
	Addr_         net.Addr
	mu            sync.Mutex
	queue         []net.Conn
	closed        bool
	Accepted      int
	AcceptedConns []net.Conn
	TempErrs      int // number of temporary errors Accept returns before connections
}

func NewListener(addr net.Addr) *Listener { return &Listener{Addr_: addr} }

// TempError is a transient accept error that is not a timeout (EMFILE, ECONNABORTED, ...).
type TempError struct{}

func (TempError) Error() string   { return "accept: too many open files" }
func (TempError) Timeout() bool   { return false }
func (TempError) Temporary() bool { return true }

type errConn struct {
	net.Conn
	err error
}

// InjectErr queues an error for Accept to return in place of a connection.
func (l *Listener) InjectErr(err error) {
	l.mu.Lock()
	l.queue = append(l.queue, errConn{err: err})
	l.mu.Unlock()
}

// Inject queues a connection for Accept (the server-side end of a Pipe).
func (l *Listener) Inject(c net.Conn) {
	l.mu.Lock()
	l.queue = append(l.queue, c)
	l.mu.Unlock()
}

func (l *Listener) Accept() (net.Conn, error) {
	vsched.Yield("accept", func() bool { return l.closed || len(l.queue) > 0 })
	l.mu.Lock()
	defer l.mu.Unlock()
	if len(l.queue) > 0 && !l.closed {
		c := l.queue[0]
		l.queue = l.queue[1:]
		if e, ok := c.(errConn); ok {
			return nil, e.err
		}
		l.Accepted++
		l.AcceptedConns = append(l.AcceptedConns, c)
		return c, nil
	}
	return nil, net.ErrClosed
}

func (l *Listener) Close() error {
	vsched.Point("listener.Close")
	l.mu.Lock()
	defer l.mu.Unlock()
	if l.closed {
		return net.ErrClosed
	}
	l.closed = true
	return nil
}
func (l *Listener) Addr() net.Addr { return l.Addr_ }
func (l *Listener) IsClosed() bool { l.mu.Lock(); defer l.mu.Unlock(); return l.closed }
func (l *Listener) Queued() []net.Conn {
	l.mu.Lock()
	defer l.mu.Unlock()
	return append([]net.Conn(nil), l.queue...)
}

// Datagram is one UDP datagram.
type Datagram struct {
	Data []byte
	Addr net.Addr
}

// PacketConn is a virtual UDP socket: datagrams injected by the harness are returned by
// ReadFrom in order; WriteTo records replies.
type PacketConn struct {
	mu        sync.Mutex
	local     net.Addr
	inbox     []Datagram
	closed    bool
	failErr   error
	Sent      []Datagram
	ReadFroms int
}

func NewPacketConn(local net.Addr) *PacketConn { return &PacketConn{local: local} }

func (p *PacketConn) Inject(d Datagram) {
	p.mu.Lock()
	p.inbox = append(p.inbox, d)
	p.mu.Unlock()
}

// Fail makes the next ReadFrom (after queued datagrams) return err: the socket broke.
func (p *PacketConn) Fail(err error) {
	p.mu.Lock()
	p.failErr = err
	p.mu.Unlock()
}

func (p *PacketConn) ReadFrom(b []byte) (int, net.Addr, error) {
	vsched.Yield("readfrom", func() bool { return p.closed || p.failErr != nil || len(p.inbox) > 0 })
	p.mu.Lock()
	defer p.mu.Unlock()
	p.ReadFroms++
	if len(p.inbox) > 0 {
		d := p.inbox[0]
		p.inbox = p.inbox[1:]
		n := copy(b, d.Data)
		return n, d.Addr, nil
	}
	if p.failErr != nil {
		return 0, nil, p.failErr
	}
	return 0, nil, net.ErrClosed
}

func (p *PacketConn) WriteTo(b []byte, addr net.Addr) (int, error) {
	vsched.Point("writeto")
	p.mu.Lock()
	defer p.mu.Unlock()
	if p.closed {
		return 0, net.ErrClosed
	}
	p.Sent = append(p.Sent, Datagram{Data: append([]byte(nil), b...), Addr: addr})
	return len(b), nil
}

func (p *PacketConn) Close() error {
	vsched.Point("pc.Close")
	p.mu.Lock()
	p.closed = true
	p.mu.Unlock()
	return nil
}
func (p *PacketConn) LocalAddr() net.Addr                { return p.local }
func (p *PacketConn) SetDeadline(t time.Time) error      { return nil }
func (p *PacketConn) SetReadDeadline(t time.Time) error  { return nil }
func (p *PacketConn) SetWriteDeadline(t time.Time) error { return nil }
func (p *PacketConn) PendingIn() int                     { p.mu.Lock(); defer p.mu.Unlock(); return len(p.inbox) }

// ---- dialling -------------------------------------------------------------------------

// DialOutcome says what happens when an address is dialled.
type DialOutcome int

const (
	DialOK DialOutcome = iota
	DialRefused
)

// Net is the dial table of one execution.
type Net struct {
	mu      sync.Mutex
	targets map[string]func(client net.Addr) (net.Conn, error)
	Dials   []string // every address dialled, in order
	Listens []string // every listener opened by the code under test
	// WithTimeout: whether the dial in progress came through DialTimeout (the active health checker) or Dial
	WithTimeout bool
	nextPort    int
}

// Current is the dial table used by Dial/DialTimeout during an execution.
var Current *Net

func NewNet() *Net {
	return &Net{targets: map[string]func(net.Addr) (net.Conn, error){}, nextPort: 40000}
}

// Handle registers what dialling addr does.
func (n *Net) Handle(addr string, f func(client net.Addr) (net.Conn, error)) { n.targets[addr] = f }

// ErrRefused is the error of a refused dial.
var ErrRefused = errors.New("dial: connection refused")

func (n *Net) dial(network, addr string, withTimeout bool) (net.Conn, error) {
	vsched.Point("dial:" + addr)
	n.mu.Lock()
	n.WithTimeout = withTimeout
	n.Dials = append(n.Dials, network+"/"+addr)
	n.nextPort++
	port := n.nextPort
	f := n.targets[addr]
	n.mu.Unlock()
	if f == nil {
		return nil, fmt.Errorf("dial %s %s: %w", network, addr, ErrRefused)
	}
	return f(&net.TCPAddr{IP: net.IPv4(10, 9, 9, 9), Port: port})
}

func Dial(network, addr string) (net.Conn, error) {
	if Current == nil {
		return nil, errors.New("vnet: no network in this execution")
	}
	return Current.dial(network, addr, false)
}

func DialTimeout(network, addr string, _ time.Duration) (net.Conn, error) {
	if Current == nil {
		return nil, errors.New("vnet: no network in this execution")
	}
	return Current.dial(network, addr, true)
}

// ---- UDP listeners opened by the code under test (SOCKS5 ASSOCIATE) -------------------------

// UDPListener stands in for *net.UDPConn returned by net.ListenUDP: it never receives
// anything (the harness only needs to know that it was opened) and unblocks on Close.
type UDPListener struct {
	mu     sync.Mutex
	addr   *net.UDPAddr
	closed bool
}

func ListenUDP(network string, laddr *net.UDPAddr) (*UDPListener, error) {
	if Current == nil {
		return nil, errors.New("vnet: no network in this execution")
	}
	vsched.Point("listenudp")
	Current.mu.Lock()
	Current.Listens = append(Current.Listens, network)
	Current.nextPort++
	port := Current.nextPort
	Current.mu.Unlock()
	return &UDPListener{addr: &net.UDPAddr{IP: net.IPv4(10, 0, 0, 1), Port: port}}, nil
}

func (l *UDPListener) LocalAddr() net.Addr { return l.addr }
func (l *UDPListener) ReadFromUDP(b []byte) (int, *net.UDPAddr, error) {
	vsched.Yield("readfromudp", func() bool { return l.closed })
	return 0, nil, net.ErrClosed
}
func (l *UDPListener) WriteTo(b []byte, a net.Addr) (int, error) { return len(b), nil }
func (l *UDPListener) Close() error {
	vsched.Point("udplistener.Close")
	l.mu.Lock()
	l.closed = true
	l.mu.Unlock()
	return nil
}

// Listen stands in for net.Listen in rewritten code (recorded, never connected to).
func Listen(network, addr string) (net.Listener, error) {
	if Current == nil {
		return nil, errors.New("vnet: no network in this execution")
	}
	Current.mu.Lock()
	Current.Listens = append(Current.Listens, network+"/"+addr)
	Current.mu.Unlock()
	return NewListener(TCP("10.0.0.1", 1080)), nil
}
