package main

import (
	"fmt"
	_ "github.com/mholt/caddy-l4"
	"github.com/mholt/caddy-l4/layer4"
)

func main() { fmt.Println(layer4.MaxMatchingBytes) }
