package hm

import (
	"bytes"
	"encoding/json"
	"errors"
	"io"
	"sync"
	"time"

	"github.com/caddyserver/caddy/v2"

	"github.com/mholt/caddy-l4/layer4"
)

// Event is one observable step of routing, recorded by harness modules.
type Event struct {
	Kind    string // match | start | read | done | fallback
	ID      string
	Visible []byte // bytes visible (buffered, unread) at that moment
	Verdict string // yes | no | more (match events)
	Data    []byte // bytes a handler read
	Err     string
}

// Trace is the per-connection event list; it travels in the connection's variable table.
type Trace struct {
	mu     sync.Mutex
	Events []Event
	notify chan struct{}
}

func (t *Trace) Add(e Event) {
	t.mu.Lock()
	t.Events = append(t.Events, e)
	if t.notify != nil {
		close(t.notify)
		t.notify = nil
	}
	t.mu.Unlock()
}

// Snapshot returns a copy of the events recorded so far.
func (t *Trace) Snapshot() []Event {
	t.mu.Lock()
	defer t.mu.Unlock()
	return append([]Event(nil), t.Events...)
}

// WaitFor blocks until an event of the given kind and id has been recorded (by another
// goroutine) or the watchdog expires; the watchdog is a harness safety net, never an oracle.
func (t *Trace) WaitFor(kind, id string, watchdog time.Duration) bool {
	dl := time.Now().Add(watchdog)
	for {
		t.mu.Lock()
		for _, e := range t.Events {
			if e.Kind == kind && e.ID == id {
				t.mu.Unlock()
				return true
			}
		}
		if t.notify == nil {
			t.notify = make(chan struct{})
		}
		ch := t.notify
		t.mu.Unlock()
		rem := time.Until(dl)
		if rem <= 0 {
			return false
		}
		select {
		case <-ch:
		case <-time.After(rem):
			return false
		}
	}
}

const traceVar = "h_trace"

func Attach(cx *layer4.Connection, t *Trace) { cx.SetVar(traceVar, t) }
func TraceOf(cx *layer4.Connection) *Trace {
	if t, ok := cx.GetVar(traceVar).(*Trace); ok {
		return t
	}
	if Global != nil {
		return Global
	}
	return &Trace{}
}

// Global receives the events of connections that carry no trace of their own (connections
// created inside the code under test, e.g. by the listener wrapper).
var Global *Trace

func init() {
	caddy.RegisterModule(&Need{})
	caddy.RegisterModule(&Rec{})
	caddy.RegisterModule(&Consume{})
	caddy.RegisterModule(&Pass{})
}

// Need is a pure prefix matcher: it needs K bytes; with fewer visible it asks for more;
// otherwise it says yes iff the first K bytes equal Pat (Pat "" = always yes, "!" = always no).
type Need struct {
	ID   string `json:"id,omitempty"`
	K    int    `json:"k"`
	Pat  string `json:"pat,omitempty"`
	Mode string `json:"mode,omitempty"` // full (io.ReadFull) | peek (MatchingBytes) | one (Read loop) | drain (read until error)
	// ErrOn: when the first K bytes equal ErrOn the matcher fails with an error (not a verdict).
	ErrOn string `json:"err_on,omitempty"`
}

// ErrMatcher is the error a Need matcher configured with ErrOn reports.
var ErrMatcher = errors.New("harness matcher error")

func (*Need) CaddyModule() caddy.ModuleInfo {
	return caddy.ModuleInfo{ID: "layer4.matchers.h_need", New: func() caddy.Module { return new(Need) }}
}

// Decide is the reference verdict of this matcher on visible bytes b.
func (m *Need) Decide(b []byte) string {
	if len(b) < m.K {
		return "more"
	}
	switch m.Pat {
	case "":
		return "yes"
	case "!":
		return "no"
	}
	if string(b[:m.K]) == m.Pat {
		return "yes"
	}
	return "no"
}

// OnMatch, when set, observes the connection at every evaluation of a Need matcher (e.g. to
// track the high-water mark of the matching buffer through a white-box accessor).
var OnMatch func(cx *layer4.Connection)

func (m *Need) Match(cx *layer4.Connection) (bool, error) {
	if OnMatch != nil {
		OnMatch(cx)
	}
	vis := append([]byte(nil), cx.MatchingBytes()...)
	var got []byte
	var err error
	switch m.Mode {
	case "peek":
		got = vis
		if len(got) < m.K {
			err = layer4.ErrConsumedAllPrefetchedBytes
		}
	case "one":
		buf := make([]byte, m.K)
		for len(got) < m.K && err == nil {
			var n int
			n, err = cx.Read(buf[len(got):])
			got = buf[:len(got)+n]
		}
	case "drain":
		buf := make([]byte, 5)
		for err == nil {
			var n int
			n, err = cx.Read(buf)
			got = append(got, buf[:n]...)
		}
		if len(got) >= m.K {
			err = nil
		}
	default:
		buf := make([]byte, m.K)
		var n int
		n, err = io.ReadFull(cx, buf)
		got = buf[:n]
	}
	verdict := "more"
	matched := false
	if err == nil && m.ErrOn != "" && len(got) >= m.K && string(got[:m.K]) == m.ErrOn {
		err = ErrMatcher
	}
	if err == nil {
		verdict = m.Decide(got)
		matched = verdict == "yes"
	} else if !errors.Is(err, layer4.ErrConsumedAllPrefetchedBytes) {
		verdict = "err:" + err.Error()
	}
	TraceOf(cx).Add(Event{Kind: "match", ID: m.ID, Visible: vis, Verdict: verdict})
	return matched, err
}

// Rec is a terminal handler: it reads until EOF or error (at most Limit bytes if Limit>0)
// with a buffer of Buf bytes and records what it read.
type Rec struct {
	ID    string `json:"id,omitempty"`
	Buf   int    `json:"buf,omitempty"`
	Limit int    `json:"limit,omitempty"`
}

func (*Rec) CaddyModule() caddy.ModuleInfo {
	return caddy.ModuleInfo{ID: "layer4.handlers.h_rec", New: func() caddy.Module { return new(Rec) }}
}

// ReadAll reads cx to the end the way Rec does.
func ReadAll(cx *layer4.Connection, bufSize, limit int) ([]byte, error) {
	if bufSize <= 0 {
		bufSize = 512
	}
	buf := make([]byte, bufSize)
	var data []byte
	for {
		b := buf
		if limit > 0 && limit-len(data) < len(b) {
			b = b[:limit-len(data)]
		}
		if len(b) == 0 {
			return data, nil
		}
		n, err := cx.Read(b)
		data = append(data, b[:n]...)
		if err != nil {
			return data, err
		}
	}
}

func (h *Rec) Handle(cx *layer4.Connection, _ layer4.Handler) error {
	tr := TraceOf(cx)
	tr.Add(Event{Kind: "start", ID: h.ID, Visible: append([]byte(nil), cx.MatchingBytes()...)})
	data, err := ReadAll(cx, h.Buf, h.Limit)
	es := ""
	if err != nil {
		es = err.Error()
	}
	tr.Add(Event{Kind: "done", ID: h.ID, Data: data, Err: es})
	return nil
}

// Consume is a non-terminal handler: it reads exactly N bytes and calls next.
type Consume struct {
	ID string `json:"id,omitempty"`
	N  int    `json:"n"`
}

func (*Consume) CaddyModule() caddy.ModuleInfo {
	return caddy.ModuleInfo{ID: "layer4.handlers.h_consume", New: func() caddy.Module { return new(Consume) }}
}

func (h *Consume) Handle(cx *layer4.Connection, next layer4.Handler) error {
	tr := TraceOf(cx)
	tr.Add(Event{Kind: "start", ID: h.ID, Visible: append([]byte(nil), cx.MatchingBytes()...)})
	buf := make([]byte, h.N)
	n, err := io.ReadFull(cx, buf)
	es := ""
	if err != nil {
		es = err.Error()
	}
	tr.Add(Event{Kind: "done", ID: h.ID, Data: buf[:n], Err: es})
	if err != nil {
		return nil // cannot go on; behave as a terminal handler that gave up
	}
	return next.Handle(cx)
}

// Pass is a non-terminal handler that does nothing.
type Pass struct {
	ID string `json:"id,omitempty"`
}

func (*Pass) CaddyModule() caddy.ModuleInfo {
	return caddy.ModuleInfo{ID: "layer4.handlers.h_pass", New: func() caddy.Module { return new(Pass) }}
}

func (h *Pass) Handle(cx *layer4.Connection, next layer4.Handler) error {
	TraceOf(cx).Add(Event{Kind: "start", ID: h.ID, Visible: append([]byte(nil), cx.MatchingBytes()...)})
	TraceOf(cx).Add(Event{Kind: "done", ID: h.ID})
	return next.Handle(cx)
}

// J marshals v or panics (harness configuration is always well formed).
func J(v any) json.RawMessage {
	b, err := json.Marshal(v)
	if err != nil {
		panic(err)
	}
	return b
}

// Equal reports whether two byte strings are equal, treating nil and empty alike.
func Equal(a, b []byte) bool { return bytes.Equal(a, b) }
