package hm

import (
	"io"
	"net"
	"os"
	"sync"
	"time"

	"verif/mc/explore"
)

// Duplex is an in-memory connection between a real client goroutine (e.g. a crypto/tls
// client) and the sequentially explored server side.  The server side only ever looks at
// the client's bytes when the client is quiescent (blocked reading with nothing to read,
// finished writing, or gone), so what a server Read can see is a deterministic function of
// the bytes exchanged so far: the pair is a Kahn network and the explorer's read choices
// are reproducible.
type Duplex struct {
	mu           sync.Mutex
	cond         *sync.Cond
	c2s, s2c     []byte
	cWaiting     bool
	cWriteClosed bool
	cGone        bool
	sClosed      bool

	S *DServer
	C *DClient
}

func NewDuplex(x *explore.Exec) *Duplex {
	d := &Duplex{}
	d.cond = sync.NewCond(&d.mu)
	d.S = &DServer{d: d, SConn: SConn{X: x,
		Local:  &net.TCPAddr{IP: net.IPv4(10, 0, 0, 1), Port: 443},
		Remote: &net.TCPAddr{IP: net.IPv4(192, 0, 2, 7), Port: 50000}}}
	d.C = &DClient{d: d}
	return d
}

// DServer is the server-side end; it embeds SConn for bookkeeping fields and addresses.
type DServer struct {
	SConn
	d *Duplex
}

func (s *DServer) Read(p []byte) (int, error) {
	d := s.d
	s.Reads++
	if s.InMatcher != nil && *s.InMatcher {
		s.ReadsInMatcher++
	}
	d.mu.Lock()
	defer d.mu.Unlock()
	if d.sClosed {
		return 0, net.ErrClosed
	}
	if len(p) == 0 {
		return 0, nil
	}
	for !(d.cWaiting || d.cWriteClosed || d.cGone) {
		d.cond.Wait()
	}
	avail := len(d.c2s)
	armed := !s.Deadline.IsZero()
	if avail == 0 {
		if d.cWriteClosed || d.cGone {
			s.ReadLog = append(s.ReadLog, 0)
			return 0, io.EOF
		}
		if armed {
			s.TimedOut = true
			s.ReadLog = append(s.ReadLog, -1)
			return 0, os.ErrDeadlineExceeded
		}
		s.ReadLog = append(s.ReadLog, -2)
		return 0, ErrBlockedForever
	}
	max := avail
	if len(p) < max {
		max = len(p)
	}
	n := max
	if max > 1 {
		if s.Menu != nil {
			m := s.Menu(max)
			n = m[s.X.Choose(explore.KRead, len(m))]
		} else if k := s.X.Choose(explore.KRead, max); k > 0 {
			n = k
		}
	}
	copy(p, d.c2s[:n])
	d.c2s = d.c2s[n:]
	s.Pos += n
	s.ReadLog = append(s.ReadLog, n)
	return n, nil
}

func (s *DServer) Write(p []byte) (int, error) {
	d := s.d
	d.mu.Lock()
	defer d.mu.Unlock()
	if d.sClosed {
		return 0, net.ErrClosed
	}
	if len(p) > 0 {
		d.s2c = append(d.s2c, p...)
		d.cWaiting = false
		d.cond.Broadcast()
	}
	return len(p), nil
}

func (s *DServer) Close() error {
	d := s.d
	d.mu.Lock()
	d.sClosed = true
	s.Closed = true
	d.cond.Broadcast()
	d.mu.Unlock()
	return nil
}

// DClient is the client-side end, used from the client goroutine only.
type DClient struct {
	d        *Duplex
	Received []byte
}

func (c *DClient) Read(p []byte) (int, error) {
	d := c.d
	d.mu.Lock()
	defer d.mu.Unlock()
	for len(d.s2c) == 0 {
		if d.sClosed {
			return 0, io.EOF
		}
		d.cWaiting = true
		d.cond.Broadcast()
		d.cond.Wait()
	}
	d.cWaiting = false
	n := copy(p, d.s2c)
	d.s2c = d.s2c[n:]
	return n, nil
}

func (c *DClient) Write(p []byte) (int, error) {
	d := c.d
	d.mu.Lock()
	defer d.mu.Unlock()
	if d.sClosed {
		return 0, io.ErrClosedPipe
	}
	d.c2s = append(d.c2s, p...)
	return len(p), nil
}

// CloseWrite half-closes the client's sending direction.
func (c *DClient) CloseWrite() error {
	d := c.d
	d.mu.Lock()
	d.cWriteClosed = true
	d.cond.Broadcast()
	d.mu.Unlock()
	return nil
}

// Gone marks the client goroutine as finished.
func (c *DClient) Gone() {
	d := c.d
	d.mu.Lock()
	d.cGone = true
	d.cond.Broadcast()
	d.mu.Unlock()
}

func (c *DClient) Close() error                       { c.CloseWrite(); return nil }
func (c *DClient) LocalAddr() net.Addr                { return c.d.S.Remote }
func (c *DClient) RemoteAddr() net.Addr               { return c.d.S.Local }
func (c *DClient) SetDeadline(t time.Time) error      { return nil }
func (c *DClient) SetReadDeadline(t time.Time) error  { return nil }
func (c *DClient) SetWriteDeadline(t time.Time) error { return nil }
