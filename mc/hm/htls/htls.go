//go:build verif

// Package htls registers "layer4.handlers.h_tls": the real l4tls.Handler around a static
// server certificate, so TLS termination can be placed in JSON-provisioned routes
// without the Caddy tls app.
package htls

import (
	"crypto/ed25519"
	"crypto/tls"
	"crypto/x509"
	"crypto/x509/pkix"
	"math/big"
	"time"

	"github.com/caddyserver/caddy/v2"

	"github.com/mholt/caddy-l4/layer4"
	"github.com/mholt/caddy-l4/modules/l4tls"
)

type zeroReader struct{}

func (zeroReader) Read(p []byte) (int, error) {
	for i := range p {
		p[i] = 0x5a
	}
	return len(p), nil
}

var (
	ServerConfig *tls.Config
	ClientConfig *tls.Config
)

func init() {
	seed := make([]byte, ed25519.SeedSize)
	priv := ed25519.NewKeyFromSeed(seed)
	tmpl := &x509.Certificate{
		SerialNumber: big.NewInt(1), Subject: pkix.Name{CommonName: "verif.test"},
		NotBefore: time.Unix(0, 0), NotAfter: time.Unix(4000000000, 0),
		DNSNames: []string{"verif.test"}, KeyUsage: x509.KeyUsageDigitalSignature,
		ExtKeyUsage: []x509.ExtKeyUsage{x509.ExtKeyUsageServerAuth}, BasicConstraintsValid: true, IsCA: true,
	}
	der, err := x509.CreateCertificate(zeroReader{}, tmpl, tmpl, priv.Public(), priv)
	if err != nil {
		panic(err)
	}
	cert := tls.Certificate{Certificate: [][]byte{der}, PrivateKey: priv}
	// session tickets off: post-handshake messages would only add noise
	ServerConfig = &tls.Config{Certificates: []tls.Certificate{cert}, MinVersion: tls.VersionTLS12, SessionTicketsDisabled: true}
	pool := x509.NewCertPool()
	c, _ := x509.ParseCertificate(der)
	pool.AddCert(c)
	ClientConfig = &tls.Config{RootCAs: pool, ServerName: "verif.test", MinVersion: tls.VersionTLS12}
	caddy.RegisterModule(&HTLS{})
}

type HTLS struct {
	inner *l4tls.Handler
}

func (*HTLS) CaddyModule() caddy.ModuleInfo {
	return caddy.ModuleInfo{ID: "layer4.handlers.h_tls", New: func() caddy.Module { return new(HTLS) }}
}

func (h *HTLS) Provision(caddy.Context) error {
	h.inner = l4tls.VerifNewHandler(ServerConfig)
	return nil
}

func (h *HTLS) Handle(cx *layer4.Connection, next layer4.Handler) error {
	return h.inner.Handle(cx, next)
}
