// Package hm holds the harness-side building blocks for sequential checks: a scripted
// connection whose every Read is an explorer choice, a per-connection event trace, and
// pure matcher / recording handler modules registered in Caddy's module registry so that
// route lists are provisioned from JSON exactly as production configurations are.
package hm

import (
	"errors"
	"io"
	"net"
	"os"
	"time"

	"verif/mc/explore"
)

// ErrBlockedForever is returned by a read that could never complete: no data will ever
// arrive, the peer does not close, and no deadline is armed.
var ErrBlockedForever = errors.New("harness: read would block forever")

// SConn is a scripted client connection for sequential (single-threaded) exploration.
type SConn struct {
	X    *explore.Exec
	Data []byte
	Pos  int
	FIN  bool // after Data the client half-closes (EOF); otherwise it stays silent
	// Menu returns candidate sizes for a read that could return up to max bytes; first is
	// the default.  nil = every size max, 1, 2, ... max-1.
	Menu       func(max int) []int
	TimeoutAlt bool // when a deadline is armed, "nothing arrives before the deadline" is an alternative
	// EOFWithData: the read that delivers the client's last bytes may return them together
	// with io.EOF (io.Reader allows it; crypto/tls does it when close_notify follows the data)
	EOFWithData bool
	StallAfter  int // if >0: after this many bytes have been delivered the client goes silent... (-1 unused)

	Deadline       time.Time
	DeadlineSets   int
	Reads          int
	ReadLog        []int
	TimedOut       bool
	Written        []byte
	Closed         bool
	Local          net.Addr
	Remote         net.Addr
	InMatcher      *bool // when set and true, any Read is a purity violation (recorded in ReadsInMatcher)
	ReadsInMatcher int
}

func NewSConn(x *explore.Exec, data []byte, fin bool) *SConn {
	return &SConn{X: x, Data: data, FIN: fin,
		Local:  &net.TCPAddr{IP: net.IPv4(10, 0, 0, 1), Port: 443},
		Remote: &net.TCPAddr{IP: net.IPv4(192, 0, 2, 7), Port: 50000}}
}

func (c *SConn) Read(p []byte) (int, error) {
	c.Reads++
	if c.InMatcher != nil && *c.InMatcher {
		c.ReadsInMatcher++
	}
	if c.Closed {
		return 0, net.ErrClosed
	}
	if len(p) == 0 {
		return 0, nil
	}
	avail := len(c.Data) - c.Pos
	armed := !c.Deadline.IsZero()
	if avail == 0 {
		if c.FIN {
			c.ReadLog = append(c.ReadLog, 0)
			return 0, io.EOF
		}
		if armed {
			c.TimedOut = true
			c.ReadLog = append(c.ReadLog, -1)
			return 0, os.ErrDeadlineExceeded
		}
		c.ReadLog = append(c.ReadLog, -2)
		return 0, ErrBlockedForever
	}
	max := avail
	if len(p) < max {
		max = len(p)
	}
	if c.TimeoutAlt && armed && c.X != nil {
		if c.X.Choose(explore.KTime, 2) == 1 {
			c.TimedOut = true
			c.ReadLog = append(c.ReadLog, -1)
			return 0, os.ErrDeadlineExceeded
		}
	}
	n := max
	if max > 1 && c.X != nil {
		if c.Menu != nil {
			m := c.Menu(max)
			n = m[c.X.Choose(explore.KRead, len(m))]
		} else {
			k := c.X.Choose(explore.KRead, max)
			if k > 0 {
				n = k
			}
		}
	}
	copy(p, c.Data[c.Pos:c.Pos+n])
	c.Pos += n
	c.ReadLog = append(c.ReadLog, n)
	if c.EOFWithData && c.FIN && c.Pos == len(c.Data) && c.X != nil && c.X.Choose(explore.KRead, 2) == 1 {
		c.ReadLog = append(c.ReadLog, 0)
		return n, io.EOF
	}
	return n, nil
}

func (c *SConn) Write(p []byte) (int, error) {
	if c.Closed {
		return 0, net.ErrClosed
	}
	c.Written = append(c.Written, p...)
	return len(p), nil
}
func (c *SConn) Close() error         { c.Closed = true; return nil }
func (c *SConn) LocalAddr() net.Addr  { return c.Local }
func (c *SConn) RemoteAddr() net.Addr { return c.Remote }
func (c *SConn) SetDeadline(t time.Time) error {
	c.SetReadDeadline(t)
	return nil
}
func (c *SConn) SetReadDeadline(t time.Time) error {
	c.Deadline = t
	c.DeadlineSets++
	return nil
}
func (c *SConn) SetWriteDeadline(t time.Time) error { return nil }

// StdMenu is the read-size menu used with the real constants: boundary sizes around the
// prefetch chunk and the 4096-byte bufio size, deduplicated and clipped to max.
func StdMenu(sizes ...int) func(max int) []int {
	return func(max int) []int {
		out := []int{max}
		for _, s := range sizes {
			if s >= 1 && s < max {
				dup := false
				for _, o := range out {
					if o == s {
						dup = true
					}
				}
				if !dup {
					out = append(out, s)
				}
			}
		}
		return out
	}
}

// MustUDPAddr parses "ip:port" into a *net.UDPAddr.
func MustUDPAddr(s string) *net.UDPAddr {
	a, err := net.ResolveUDPAddr("udp", s)
	if err != nil {
		panic(err)
	}
	return a
}
