package vsched

import "time"

// Alarm is a pending instant on the virtual clock.  Timers, sleeps and I/O deadlines are
// all alarms; the clock only ever jumps to the earliest active alarm.
type Alarm struct {
	When   int64 // virtual ns
	Active bool
	Fire   func() // run by the scheduler (not as a thread) when the alarm goes off; may be nil
	seq    int64
}

// Timer is kept as an alias so the scheduler's bookkeeping reads naturally.
type Timer = Alarm

// Never is the instant of an alarm that does not go off (a duration so long that now+d
// overflows, e.g. the wait x/time/rate computes for a limiter whose rate is 0).
const Never = int64(1<<63 - 1)

// After returns the absolute instant d from now, saturating at Never.
func After(d int64) int64 {
	now := S.now
	if d > 0 && now+d < now {
		return Never
	}
	return now + d
}

// NewAlarm registers an alarm at absolute virtual time when.
func NewAlarm(when int64, fire func()) *Alarm {
	s := S
	s.seq++
	if when < s.now {
		when = s.now // an instant in the past is due immediately
	}
	a := &Alarm{When: when, Active: true, Fire: fire, seq: s.seq}
	s.timers = append(s.timers, a)
	return a
}

// Cancel deactivates the alarm; it reports whether it was still pending.
func (a *Alarm) Cancel() bool {
	was := a.Active
	a.Active = false
	return was
}

// Rearm sets a new instant and reactivates the alarm.
func (a *Alarm) Rearm(when int64) {
	s := S
	if when < s.now {
		when = s.now
	}
	a.When = when
	if !a.Active {
		a.Active = true
		for _, t := range s.timers {
			if t == a {
				return
			}
		}
		s.timers = append(s.timers, a)
	}
}

// nextDeadline returns the instant of the earliest active alarm, or -1.
func (s *Sched) nextDeadline() int64 {
	next := int64(-1)
	live := s.timers[:0]
	for _, a := range s.timers {
		if !a.Active {
			continue
		}
		live = append(live, a)
		if a.When == Never {
			continue // pending for ever: the clock never jumps there
		}
		if next < 0 || a.When < next {
			next = a.When
		}
	}
	for i := len(live); i < len(s.timers); i++ {
		s.timers[i] = nil
	}
	s.timers = live
	return next
}

// advance moves the clock to instant t (never backwards) and fires the alarms due at the
// earliest instant, in creation order.
func (s *Sched) advance(t int64) {
	// the clock lands one nanosecond past the instant: code that wakes up because a timer
	// fired always reads a time strictly after the timer's deadline, never equal to it
	if t+1 > s.now {
		s.now = t + 1
	}
	var due []*Alarm
	for _, a := range s.timers {
		if a.Active && a.When <= t {
			due = append(due, a)
		}
	}
	for _, a := range due {
		if !a.Active {
			continue
		}
		a.Active = false
		if a.Fire != nil {
			a.Fire()
		}
	}
}

// VNow is the virtual wall clock.
func VNow() time.Time {
	if S == nil {
		return time.Now()
	}
	return S.Now()
}

// NS converts a virtual time.Time to virtual nanoseconds.
func NS(t time.Time) int64 { return int64(t.Sub(S.Base)) }

// NS2 converts a wall-clock value produced under base to virtual nanoseconds (usable after
// the execution has ended).
func NS2(t, base time.Time) int64 { return int64(t.Sub(base)) }
