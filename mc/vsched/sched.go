// Package vsched is E2: a cooperative scheduler under which rewritten repository code
// runs one model thread at a time.  Every hooked operation (channel op, select, lock,
// atomic, timer, virtual-network I/O) announces itself with an enabledness predicate and
// yields; the scheduler asks the explorer which enabled thread (or timer) goes next, so
// every interleaving within the preemption bound is enumerated deterministically.
package vsched

import (
	"fmt"
	"runtime/debug"
	"sort"
	"strings"
	"time"

	"verif/mc/explore"
)

type Thread struct {
	ID      int
	Name    string
	gate    gate
	pred    func() bool // enabledness of the pending operation; nil = always enabled
	op      string
	done    bool
	daemon  bool
	wait    *waitRec // channel wait record while parked in a channel operation
	Panic   any
	Stack   string
	parkSeq int64
}

// abortSentinel unwinds parked threads when an execution is torn down.
type abortSentinel struct{}

// Outcome of one execution under the scheduler.
type Outcome struct {
	Deadlock bool     // some non-daemon thread can never run again
	Blocked  []string // ops of the threads blocked at the end
	Horizon  bool     // step horizon exceeded
	Panics   []string // panics of model threads (with repository site)
	Steps    int64
}

type Sched struct {
	X                 *explore.Exec
	threads           []*Thread
	cur               *Thread
	now               int64 // virtual nanoseconds since Base
	Base              time.Time
	timers            []*Timer
	Horizon           int64
	steps             int64
	abort             bool
	out               Outcome
	doneCh            gate
	seq               int64
	NoTimeDeviation   bool
	PreemptionBounded bool
	GoMaxProcs        int
	// Trace, when non-nil, receives one line per scheduling decision (debugging / replays).
	Trace   func(string)
	started time.Time
	fatal   any
}

// S is the scheduler of the execution in progress (one per process at a time).
var S *Sched

// Options for Run.
type Options struct {
	Base       time.Time // wall-clock value of virtual time 0
	Horizon    int64     // maximum number of scheduling steps (default 20000)
	GoMaxProcs int
	Trace      func(string)
	// PreemptionBounded selects CHESS-style costs (free choice at blocking points) instead of
	// the default delay bounding.
	PreemptionBounded bool
}

// Run executes main as model thread 0 under a fresh scheduler and returns when every
// thread has finished, a deadlock or the horizon was reached (remaining threads are
// unwound).
func Run(x *explore.Exec, o Options, main func()) Outcome {
	s := &Sched{X: x, Base: o.Base, Horizon: o.Horizon, GoMaxProcs: o.GoMaxProcs, Trace: o.Trace, PreemptionBounded: o.PreemptionBounded}
	if s.Horizon == 0 {
		s.Horizon = 20000
	}
	if s.Base.IsZero() {
		s.Base = time.Date(2026, 1, 2, 3, 4, 5, 300_000_000, time.UTC)
	}
	if s.GoMaxProcs == 0 {
		s.GoMaxProcs = 1
	}
	s.doneCh = newGate()
	S = s
	t := s.newThread("main", main)
	s.cur = t
	t.gate.signal()
	s.doneCh.wait()
	s.teardown()
	S = nil
	s.out.Steps = s.steps
	if s.fatal != nil {
		panic(s.fatal)
	}
	return s.out
}

func (s *Sched) newThread(name string, f func()) *Thread {
	t := &Thread{ID: len(s.threads), Name: name, gate: newGate()}
	s.threads = append(s.threads, t)
	go func() {
		t.gate.wait()
		defer func() {
			if r := recover(); r != nil {
				if _, ok := r.(abortSentinel); !ok {
					if ne, ok := r.(explore.NondetError); ok {
						s.fatal = ne // re-raised by Run in the explorer's goroutine
						r = nil
					}
					t.Panic = r
					t.Stack = string(debug.Stack())
					if r != nil {
						s.out.Panics = append(s.out.Panics, fmt.Sprintf("%v at %s", r, RepoSite(t.Stack)))
					}
				}
			}
			t.done = true
			t.pred = nil
			t.wait = nil
			if s.abort {
				s.doneCh.signal() // teardown resumes one thread at a time
				return
			}
			func() {
				// the choice of the next thread may itself be the point at which a replayed
				// prefix stops fitting: note it (Run re-raises it) and carry on with defaults
				defer func() {
					if r := recover(); r != nil {
						ne, ok := r.(explore.NondetError)
						if !ok {
							panic(r)
						}
						s.fatal = ne
						s.pickNext(nil)
					}
				}()
				s.pickNext(nil)
			}()
		}()
		f()
	}()
	return t
}

// RepoSite extracts the innermost repository frame from a stack dump.
func RepoSite(st string) string {
	lines := strings.Split(st, "\n")
	for i := 0; i+1 < len(lines); i++ {
		l := lines[i+1]
		if (strings.Contains(l, "/repo/") || strings.Contains(l, "/overlay/")) && !strings.HasPrefix(lines[i], "\t") && !strings.Contains(lines[i], "vsched") {
			fn := lines[i]
			if k := strings.LastIndex(fn, "("); k > 0 {
				fn = fn[:k]
			}
			if k := strings.LastIndex(fn, "/"); k >= 0 {
				fn = fn[k+1:]
			}
			return fn
		}
	}
	return "?"
}

// Go starts f as a new model thread.  The spawn itself is not a scheduling point; the new
// thread becomes runnable and competes at the spawner's next yield.
func Go(f func()) { GoNamed("", f) }

func GoNamed(name string, f func()) *Thread {
	s := S
	if s == nil {
		go f()
		return nil
	}
	if name == "" {
		name = fmt.Sprintf("t%d", len(s.threads))
	}
	t := s.newThread(name, f)
	t.op = "start"
	return t
}

// Daemon marks the calling thread as one whose being blocked at the end is not a deadlock.
func Daemon() {
	if S != nil && S.cur != nil {
		S.cur.daemon = true
	}
}

// Cur returns the running thread.
func Cur() *Thread {
	if S == nil {
		return nil
	}
	return S.cur
}

// Yield announces the current thread's next operation and lets the scheduler decide who
// runs; when it returns, pred() holds and the thread runs until its next Yield.
func Yield(op string, pred func() bool) {
	s := S
	if s == nil {
		return
	}
	if s.abort {
		panic(abortSentinel{})
	}
	t := s.cur
	t.op, t.pred = op, pred
	s.seq++
	t.parkSeq = s.seq
	s.pickNext(t)
	t.pred = nil
}

// Point is Yield with an always-enabled operation.
func Point(op string) { Yield(op, nil) }

func (t *Thread) enabled() bool {
	if t.done {
		return false
	}
	return t.pred == nil || t.pred()
}

// StateSink, when set, receives a digest of the scheduler-visible state (every thread's
// pending operation and completion, the virtual clock) at every scheduling decision; the
// runner counts distinct digests as the 'states' of the evidence.
var StateSink func(uint64)

func (s *Sched) stateDigest() uint64 {
	h := uint64(1469598103934665603)
	mix := func(b byte) { h ^= uint64(b); h *= 1099511628211 }
	for _, t := range s.threads {
		if t.done {
			mix(0xfe)
			continue
		}
		for i := 0; i < len(t.op); i++ {
			mix(t.op[i])
		}
		mix(0xff)
	}
	n := s.now
	for i := 0; i < 8; i++ {
		mix(byte(n))
		n >>= 8
	}
	return h
}

// pickNext chooses the next thread (or advances time).  from is the yielding thread, or
// nil when the running thread has just finished.
func (s *Sched) pickNext(from *Thread) {
	for {
		s.steps++
		s.X.Step()
		if StateSink != nil {
			StateSink(s.stateDigest())
		}
		if s.steps > s.Horizon {
			s.out.Horizon = true
			s.finish(from)
			return
		}
		var en []*Thread
		curEnabled := false
		if from != nil && from.enabled() {
			en = append(en, from)
			curEnabled = true
		}
		for _, t := range s.threads {
			if t != from && t.enabled() {
				en = append(en, t)
			}
		}
		next := s.nextDeadline()
		if len(en) == 0 {
			if next >= 0 {
				s.advance(next) // nothing can run: time passes (free)
				continue
			}
			// quiescence or deadlock
			for _, t := range s.threads {
				if !t.done && !t.daemon {
					s.out.Deadlock = true
				}
				if !t.done {
					s.out.Blocked = append(s.out.Blocked, fmt.Sprintf("%s:%s", t.Name, t.op))
				}
			}
			s.finish(from)
			return
		}
		// time deviation: the earliest pending timer may fire although threads could still run
		if next >= 0 && !s.NoTimeDeviation {
			if s.X.Choose(explore.KTime, 2) == 1 {
				if s.Trace != nil {
					s.Trace(fmt.Sprintf("time -> %v", time.Duration(next)))
				}
				s.advance(next)
				continue
			}
		}
		// Deviation cost of a scheduling choice.  Default: delay bounding - the deterministic
		// scheduler (keep running the current thread; when it blocks, the lowest-id enabled
		// thread) is free and every other choice costs one deviation.  PreemptionBounded:
		// only switching away from a still-enabled thread costs (CHESS); choices at blocking
		// points are free and all explored.
		costs := make([]int, len(en))
		if curEnabled || !s.PreemptionBounded {
			for i := 1; i < len(costs); i++ {
				costs[i] = 1
			}
		}
		c := s.X.ChooseCost(explore.KSched, len(en), costs)
		t := en[c]
		if s.Trace != nil {
			s.Trace(fmt.Sprintf("run %s:%s (of %d enabled)", t.Name, t.op, len(en)))
		}
		s.switchTo(from, t)
		return
	}
}

func (s *Sched) switchTo(from, to *Thread) {
	if from == to {
		return
	}
	s.cur = to
	to.gate.signal()
	if from != nil {
		from.gate.wait()
		if s.abort {
			panic(abortSentinel{})
		}
	}
}

// finish ends the execution: wakes Run, and parks (or unwinds) the calling thread.
func (s *Sched) finish(from *Thread) {
	s.abort = true
	s.doneCh.signal()
	if from != nil {
		from.gate.wait()
		panic(abortSentinel{})
	}
}

// teardown unwinds every thread that is still parked, one at a time.
func (s *Sched) teardown() {
	for i := 0; i < len(s.threads); i++ {
		if t := s.threads[i]; !t.done {
			s.cur = t
			t.gate.signal()
			s.doneCh.wait()
		}
	}
	for _, t := range s.threads {
		t.gate.close()
	}
	s.doneCh.close()
}

// Now returns the virtual time.
func (s *Sched) Now() time.Time { return s.Base.Add(time.Duration(s.now)) }

// NowNS returns virtual nanoseconds since the start of the execution.
func NowNS() int64 {
	if S == nil {
		return 0
	}
	return S.now
}

// Threads returns a description of all threads (for oracles).
func Threads() []string {
	var out []string
	for _, t := range S.threads {
		st := "blocked"
		if t.done {
			st = "done"
		}
		out = append(out, fmt.Sprintf("%s:%s:%s", t.Name, st, t.op))
	}
	sort.Strings(out)
	return out
}

// GOMAXPROCS stands in for runtime.GOMAXPROCS in rewritten code (the listener wrapper
// sizes its hand-off channel with it); the harness chooses the value per execution.
func GOMAXPROCS(n int) int {
	if S == nil {
		return 1
	}
	return S.GoMaxProcs
}

// Pt is the identity with a scheduling point: rewritten code calls shared objects whose
// methods are atomic for the scheduler as vsched.Pt(obj).Method(...), so that a thread can be
// preempted between two such calls (arguments are evaluated after the point).
func Pt[T any](v T) T {
	if S != nil && CallPoints {
		Point("call")
	}
	return v
}

// CallPoints switches the scheduling points of Pt on (harnesses enable them for the scenarios in
// which the object is really shared; elsewhere they would only multiply equivalent schedules).
var CallPoints bool
