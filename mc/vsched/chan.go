package vsched

import (
	"unsafe"

	"verif/mc/explore"
)

// Channel operations keep the program's real Go channels.  A parked thread carries a
// wait record listing the cases it is willing to take; readiness of a case is decided by
// inspecting the real channel (len, cap, closed flag) and, for unbuffered channels, by
// the presence of a parked partner.  Because only one thread runs at a time the
// inspection is stable and the real operation, once chosen, cannot block.

type dir uint8

const (
	dirRecv dir = iota
	dirSend
)

// Case is one communication of a select (or the single case of a plain send/receive).
type Case interface {
	chanPtr() unsafe.Pointer
	direction() dir
	capacity() int
	length() int
	execBuffered()        // perform the real operation on a buffered channel (cannot block)
	takeFrom(sender Case) // unbuffered receive: copy the value from the partner's send case
	setClosed()           // receive on a closed, drained channel
	sendPanics()          // send on a closed channel: performs the real (panicking) send
}

type waitRec struct {
	cases     []Case
	completed int // >=0: a partner completed this case for us
	seq       int64
}

// hchan layout probe (go1.23): qcount uint; dataqsiz uint; buf unsafe.Pointer; elemsize uint16; closed uint32
const hchanClosedOff = 8 + 8 + 8 + 4

var hchanOK = func() bool {
	c := make(chan int, 1)
	p := *(*unsafe.Pointer)(unsafe.Pointer(&c))
	if *(*uint32)(unsafe.Add(p, hchanClosedOff)) != 0 {
		return false
	}
	close(c)
	return *(*uint32)(unsafe.Add(p, hchanClosedOff)) == 1
}()

func isClosed(p unsafe.Pointer) bool {
	if p == nil {
		return false
	}
	return *(*uint32)(unsafe.Add(p, hchanClosedOff)) != 0
}

func init() {
	if !hchanOK {
		panic("vsched: runtime.hchan layout probe failed (unsupported toolchain)")
	}
}

// RC is a receive case on a channel of T.
type RC[T any] struct {
	ch <-chan T
	V  T
	OK bool
}

func RecvCase[T any](ch <-chan T) *RC[T] { return &RC[T]{ch: ch} }

func (c *RC[T]) chanPtr() unsafe.Pointer { return *(*unsafe.Pointer)(unsafe.Pointer(&c.ch)) }
func (c *RC[T]) direction() dir          { return dirRecv }
func (c *RC[T]) capacity() int           { return cap(c.ch) }
func (c *RC[T]) length() int             { return len(c.ch) }
func (c *RC[T]) execBuffered()           { c.V, c.OK = <-c.ch }
func (c *RC[T]) takeFrom(s Case)         { c.V, c.OK = s.(*SC[T]).v, true }
func (c *RC[T]) setClosed()              { var z T; c.V, c.OK = z, false }
func (c *RC[T]) sendPanics()             {}

// SC is a send case.
type SC[T any] struct {
	ch chan<- T
	v  T
}

func SendCase[T any](ch chan<- T, v T) *SC[T] { return &SC[T]{ch: ch, v: v} }

func (c *SC[T]) chanPtr() unsafe.Pointer { return *(*unsafe.Pointer)(unsafe.Pointer(&c.ch)) }
func (c *SC[T]) direction() dir          { return dirSend }
func (c *SC[T]) capacity() int           { return cap(c.ch) }
func (c *SC[T]) length() int             { return len(c.ch) }
func (c *SC[T]) execBuffered()           { c.ch <- c.v }
func (c *SC[T]) takeFrom(Case)           {}
func (c *SC[T]) setClosed()              {}
func (c *SC[T]) sendPanics()             { c.ch <- c.v }

// partner finds the longest-parked other thread with a case of the opposite direction on
// the same unbuffered channel that has not been completed yet.
func (s *Sched) partner(self *Thread, c Case) (*Thread, int) {
	var best *Thread
	bi := -1
	want := dirSend
	if c.direction() == dirSend {
		want = dirRecv
	}
	for _, t := range s.threads {
		if t == self || t.done || t.wait == nil || t.wait.completed >= 0 {
			continue
		}
		for i, oc := range t.wait.cases {
			if oc.direction() == want && oc.chanPtr() == c.chanPtr() {
				if best == nil || t.wait.seq < best.wait.seq {
					best, bi = t, i
				}
				break
			}
		}
	}
	return best, bi
}

func (s *Sched) caseReady(self *Thread, c Case) bool {
	p := c.chanPtr()
	if p == nil {
		return false // nil channel: never ready
	}
	if isClosed(p) {
		if c.direction() == dirSend {
			return true // will panic, as in Go
		}
		if c.capacity() == 0 || c.length() == 0 {
			return true
		}
	}
	if c.capacity() > 0 {
		if c.direction() == dirSend {
			return c.length() < c.capacity()
		}
		return c.length() > 0
	}
	t, _ := s.partner(self, c)
	return t != nil
}

// Select blocks until one of the cases can proceed (or returns -1 at once when hasDefault
// and none can), performs it and returns its index.  When several cases are ready the
// explorer chooses (Go picks uniformly at random; all are enumerated).
func Select(hasDefault bool, cases ...Case) int {
	s := S
	if s == nil {
		panic("vsched.Select outside a scheduled execution")
	}
	t := s.cur
	s.seq++
	w := &waitRec{cases: cases, completed: -1, seq: s.seq}
	anyReady := func() bool {
		if w.completed >= 0 {
			return true
		}
		for _, c := range cases {
			if s.caseReady(t, c) {
				return true
			}
		}
		return false
	}
	t.wait = w
	if hasDefault {
		Yield("select-default", nil)
	} else {
		Yield(opName(cases), anyReady)
	}
	t.wait = nil
	if w.completed >= 0 {
		return w.completed // a partner already transferred the value
	}
	var ready []int
	for i, c := range cases {
		if s.caseReady(t, c) {
			ready = append(ready, i)
		}
	}
	if len(ready) == 0 {
		if hasDefault {
			return -1
		}
		panic("vsched: select resumed with no ready case")
	}
	i := ready[0]
	if len(ready) > 1 {
		i = ready[s.X.Choose(explore.KSelect, len(ready))]
	}
	c := cases[i]
	p := c.chanPtr()
	switch {
	case isClosed(p) && c.direction() == dirSend:
		c.sendPanics()
	case c.capacity() > 0:
		c.execBuffered() // also covers closed-with-data and closed-and-drained
	case isClosed(p):
		c.setClosed()
	default:
		pt, pi := s.partner(t, c)
		pc := pt.wait.cases[pi]
		if c.direction() == dirRecv {
			c.takeFrom(pc)
		} else {
			pc.takeFrom(c)
		}
		pt.wait.completed = pi
	}
	return i
}

func opName(cases []Case) string {
	if len(cases) == 1 {
		if cases[0].direction() == dirSend {
			return "send"
		}
		return "recv"
	}
	return "select"
}

// Send is `ch <- v`.
func Send[T any](ch chan<- T, v T) {
	if S == nil {
		ch <- v
		return
	}
	Select(false, SendCase(ch, v))
}

// Recv is `<-ch`.
func Recv[T any](ch <-chan T) T {
	if S == nil {
		return <-ch
	}
	c := RecvCase(ch)
	Select(false, c)
	return c.V
}

// Recv2 is `v, ok := <-ch`.
func Recv2[T any](ch <-chan T) (T, bool) {
	if S == nil {
		v, ok := <-ch
		return v, ok
	}
	c := RecvCase(ch)
	Select(false, c)
	return c.V, c.OK
}

// Close is `close(ch)`; parked receivers and senders re-evaluate their readiness.
func Close[T any](ch chan<- T) {
	if S != nil {
		Point("close")
	}
	close(ch)
}

// Sender wraps the sending side of a channel so that the value to send is an ordinary
// method argument (assignability instead of type inference).
type Sender[T any] struct{ ch chan<- T }

func SendOn[T any](ch chan<- T) Sender[T] { return Sender[T]{ch} }
func (s Sender[T]) Send(v T)              { Send(s.ch, v) }
func (s Sender[T]) Case(v T) *SC[T]       { return SendCase(s.ch, v) }
