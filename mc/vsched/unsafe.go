package vsched

import "unsafe"

func uintptrOf(b *[1]byte) uintptr { return uintptr(unsafe.Pointer(b)) }
