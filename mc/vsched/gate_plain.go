//go:build !race

package vsched

// gate hands the single execution token from one thread to another.
type gate struct{ ch chan struct{} }

func newGate() gate    { return gate{ch: make(chan struct{}, 1)} }
func (g gate) signal() { g.ch <- struct{}{} }
func (g gate) wait()   { <-g.ch }
func (g gate) close()  {}

// RaceMode reports whether the race-invisible hand-off is in use.
const RaceMode = false
