//go:build race

package vsched

import "syscall"

// Under -race the hand-off must not create happens-before edges, otherwise the detector
// could never see a race between two model threads.  Raw read/write system calls on a pipe
// inside norace functions are invisible to the race detector, so the detector judges the
// program's own synchronisation only.
type gate struct{ r, w int }

func newGate() gate {
	var p [2]int
	if err := syscall.Pipe(p[:]); err != nil {
		panic(err)
	}
	return gate{r: p[0], w: p[1]}
}

//go:norace
func (g gate) signal() {
	var b [1]byte
	syscall.RawSyscall(syscall.SYS_WRITE, uintptr(g.w), uintptrOf(&b), 1)
}

//go:norace
func (g gate) wait() {
	var b [1]byte
	for {
		n, _, e := syscall.Syscall(syscall.SYS_READ, uintptr(g.r), uintptrOf(&b), 1)
		if n == 1 {
			return
		}
		if e != syscall.EINTR && e != 0 {
			panic(e)
		}
	}
}

func (g gate) close() {
	syscall.Close(g.r)
	syscall.Close(g.w)
}

const RaceMode = true
