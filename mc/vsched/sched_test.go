package vsched

import (
	"fmt"
	"sort"
	"testing"

	"verif/mc/explore"
)

// lost update: two threads do x = x + 1 with a yield between load and store.
func TestLostUpdate(t *testing.T) {
	outcomes := map[int]int{}
	ex := explore.New(explore.DefaultBounds(2))
	ex.Explore(func(x *explore.Exec) {
		v := 0
		Run(x, Options{}, func() {
			done := make(chan int, 2)
			for i := 0; i < 2; i++ {
				Go(func() {
					Point("load")
					l := v
					Point("store")
					v = l + 1
					Send(done, 1)
				})
			}
			Recv(done)
			Recv(done)
		})
		outcomes[v]++
	})
	if outcomes[1] == 0 || outcomes[2] == 0 {
		t.Fatalf("expected both outcomes, got %v (execs %d)", outcomes, ex.Stats.Executions)
	}
	t.Logf("outcomes %v executions %d", outcomes, ex.Stats.Executions)
}

func TestUnbufferedAndSelectAndDeadlock(t *testing.T) {
	res := map[string]int{}
	ex := explore.New(explore.DefaultBounds(2))
	ex.Explore(func(x *explore.Exec) {
		var got []int
		out := Run(x, Options{}, func() {
			a := make(chan int)
			b := make(chan int, 1)
			Go(func() { Send(a, 1) })
			Go(func() { Send(b, 2) })
			for i := 0; i < 2; i++ {
				ca, cb := RecvCase(a), RecvCase(b)
				switch Select(false, ca, cb) {
				case 0:
					got = append(got, ca.V)
				case 1:
					got = append(got, cb.V)
				}
			}
		})
		res[fmt.Sprint(got, out.Deadlock)]++
	})
	keys := []string{}
	for k := range res {
		keys = append(keys, k)
	}
	sort.Strings(keys)
	if len(keys) != 2 {
		t.Fatalf("want orders [1 2] and [2 1], got %v", res)
	}
	// deadlock detection
	ex2 := explore.New(explore.DefaultBounds(0))
	ex2.Explore(func(x *explore.Exec) {
		out := Run(x, Options{}, func() {
			c := make(chan int)
			Recv(c)
		})
		if !out.Deadlock {
			t.Fatalf("deadlock not detected")
		}
	})
}
