#!/usr/bin/env python3
"""usage: mkmutant.py <name> <file under /repo> <old text> <new text>  -> writes mutants/<name>.diff (repo untouched afterwards)"""
import subprocess, sys, os
name, rel, old, new = sys.argv[1:5]
p = os.path.join('/repo', rel)
s = open(p).read()
if s.count(old) != 1:
    sys.exit("pattern occurs %d times" % s.count(old))
open(p, 'w').write(s.replace(old, new))
d = subprocess.run(['git', '-C', '/repo', 'diff'], capture_output=True, text=True).stdout
subprocess.run(['git', '-C', '/repo', 'checkout', '--', rel])
out = os.path.join(os.path.dirname(os.path.dirname(os.path.abspath(__file__))), 'mutants', name + '.diff')
open(out, 'w').write(d)
print(out)
