// gomcrw is E3: a typed source rewriter.  It loads the named packages from the current
// working tree, redirects goroutine creation, channel operations, select, sync, atomic,
// time, rand, net.Dial and io.Pipe to the controlled scheduler's shims, and writes the
// rewritten files plus a JSON map {original path: rewritten path} for `go build -overlay`.
// The rewrite is purely mechanical; anything it cannot do soundly aborts with
// REWRITE-UNSUPPORTED.
package main

import (
	"bytes"
	"encoding/json"
	"flag"
	"fmt"
	"go/ast"
	"go/format"
	"go/token"
	"go/types"
	"os"
	"path/filepath"
	"strconv"
	"strings"

	"golang.org/x/tools/go/ast/astutil"
	"golang.org/x/tools/go/packages"
)

const shimBase = "verif/mc/"

// selector table: import path -> name -> shim package
var table = map[string]map[string]string{
	"sync": {"Mutex": "vsync", "RWMutex": "vsync", "WaitGroup": "vsync", "Once": "vsync", "Pool": "vsync"},
	"sync/atomic": {"*": "vatomic"},
	"time": {"Now": "vtime", "Since": "vtime", "Until": "vtime", "Sleep": "vtime", "After": "vtime", "AfterFunc": "vtime",
		"NewTimer": "vtime", "NewTicker": "vtime", "Timer": "vtime", "Ticker": "vtime", "Tick": "vtime"},
	"math/rand": {"Int": "vrand", "Intn": "vrand", "Float64": "vrand"},
	"net":       {"Dial": "vnet", "DialTimeout": "vnet", "ListenUDP": "vnet", "Listen": "vnet"},
	"io":        {"Pipe": "vio", "PipeReader": "vio", "PipeWriter": "vio"},
	"runtime":   {"GOMAXPROCS": "vsched"},
}

var unsupported []string

func fail(fset *token.FileSet, pos token.Pos, msg string) {
	unsupported = append(unsupported, fmt.Sprintf("%s: %s", fset.Position(pos), msg))
}

type rw struct {
	fset    *token.FileSet
	info    *types.Info
	file    *ast.File
	used    map[string]bool // shim packages referenced
	changed bool
	tmp     int
	imports map[string]string // local name -> import path
	keep    map[string]bool   // import paths whose selectors stay untouched in this package
	// mapsOnly: rewrite nothing but `range` over maps, whose iteration order becomes the
	// harness's decision (vrand.MapKeys) - for sequential harnesses
	mapsOnly bool
}

func (r *rw) shim(pkg string) *ast.Ident {
	r.used[pkg] = true
	r.changed = true
	return ast.NewIdent(pkg)
}

func (r *rw) call(pkg, fn string, args ...ast.Expr) *ast.CallExpr {
	return &ast.CallExpr{Fun: &ast.SelectorExpr{X: r.shim(pkg), Sel: ast.NewIdent(fn)}, Args: args}
}

func (r *rw) fresh(prefix string) *ast.Ident {
	r.tmp++
	return ast.NewIdent(fmt.Sprintf("_vs_%s%d", prefix, r.tmp))
}

func (r *rw) isChan(e ast.Expr) bool {
	tv, ok := r.info.Types[e]
	if !ok || tv.Type == nil {
		return false
	}
	_, ok = tv.Type.Underlying().(*types.Chan)
	return ok
}

func (r *rw) isMap(e ast.Expr) bool {
	tv, ok := r.info.Types[e]
	if !ok || tv.Type == nil {
		return false
	}
	_, ok = tv.Type.Underlying().(*types.Map)
	return ok
}

// simple: an expression that can be evaluated repeatedly without side effects.
func simple(e ast.Expr) bool {
	switch v := e.(type) {
	case *ast.Ident:
		return true
	case *ast.SelectorExpr:
		return simple(v.X)
	case *ast.StarExpr:
		return simple(v.X)
	case *ast.ParenExpr:
		return simple(v.X)
	}
	return false
}

// for k, v := range m { B }  =>
// for _, _k := range vrand.MapKeys(m) { _v, _ok := m[_k]; if !_ok { continue }; k := _k; v := _v; B }
// (keys are snapshotted in the order the harness decides; an entry deleted meanwhile is skipped,
// as the language allows).  Ranges over anything but a plain variable/field are left alone.
func (r *rw) rangeMap(n *ast.RangeStmt) ast.Stmt {
	if !simple(n.X) {
		return nil
	}
	blank := func(e ast.Expr) bool {
		id, ok := e.(*ast.Ident)
		return e == nil || (ok && id.Name == "_")
	}
	kt, vt, okt := r.fresh("k"), r.fresh("v"), r.fresh("ok")
	var pre []ast.Stmt
	if !blank(n.Value) {
		pre = append(pre, define([]ast.Expr{vt, okt}, &ast.IndexExpr{X: n.X, Index: kt}),
			&ast.IfStmt{Cond: &ast.UnaryExpr{Op: token.NOT, X: okt}, Body: &ast.BlockStmt{List: []ast.Stmt{&ast.BranchStmt{Tok: token.CONTINUE}}}})
	}
	if !blank(n.Key) {
		pre = append(pre, &ast.AssignStmt{Lhs: []ast.Expr{n.Key}, Tok: n.Tok, Rhs: []ast.Expr{kt}})
	} else {
		pre = append(pre, &ast.AssignStmt{Lhs: []ast.Expr{ast.NewIdent("_")}, Tok: token.ASSIGN, Rhs: []ast.Expr{kt}})
	}
	if !blank(n.Value) {
		pre = append(pre, &ast.AssignStmt{Lhs: []ast.Expr{n.Value}, Tok: n.Tok, Rhs: []ast.Expr{vt}})
	}
	return &ast.RangeStmt{Key: ast.NewIdent("_"), Value: kt, Tok: token.DEFINE, X: r.call("vrand", "MapKeys", n.X),
		Body: &ast.BlockStmt{List: append(pre, n.Body.List...)}}
}

func define(lhs []ast.Expr, rhs ...ast.Expr) *ast.AssignStmt {
	return &ast.AssignStmt{Lhs: lhs, Tok: token.DEFINE, Rhs: rhs}
}

func (r *rw) rewriteFile() {
	r.imports = map[string]string{}
	for _, im := range r.file.Imports {
		p, _ := strconv.Unquote(im.Path.Value)
		name := filepath.Base(p)
		if im.Name != nil {
			name = im.Name.Name
		}
		r.imports[name] = p
	}
	astutil.Apply(r.file, r.pre, r.post)
}

// pre handles constructs whose children must not be visited in their original form.
func (r *rw) pre(c *astutil.Cursor) bool {
	if r.mapsOnly {
		return true
	}
	switch n := c.Node().(type) {
	case *ast.SelectStmt:
		if r.keep["select-default"] {
			hasDef := false
			for _, cl := range n.Body.List {
				if cl.(*ast.CommClause).Comm == nil {
					hasDef = true
				}
			}
			if hasDef {
				// a non-blocking poll stays native in this package (only its bodies are rewritten)
				for _, cl := range n.Body.List {
					cc := cl.(*ast.CommClause)
					cc.Body = r.walkBody(cc.Body)
				}
				return false
			}
		}
		if _, labeled := c.Parent().(*ast.LabeledStmt); labeled {
			fail(r.fset, n.Pos(), "labeled select")
			return false
		}
		// astutil.Apply does not walk a replacement, so the parts of the select are
		// rewritten first (bodies, channel and value expressions) and then reassembled
		c.Replace(r.selectStmt(n))
		return false
	case *ast.AssignStmt:
		// v, ok := <-ch
		if len(n.Lhs) == 2 && len(n.Rhs) == 1 {
			if u, ok := n.Rhs[0].(*ast.UnaryExpr); ok && u.Op == token.ARROW {
				n.Rhs[0] = r.call("vsched", "Recv2", u.X)
			}
		}
	case *ast.ValueSpec:
		if len(n.Names) == 2 && len(n.Values) == 1 {
			if u, ok := n.Values[0].(*ast.UnaryExpr); ok && u.Op == token.ARROW {
				n.Values[0] = r.call("vsched", "Recv2", u.X)
			}
		}
	}
	return true
}

func (r *rw) post(c *astutil.Cursor) bool {
	if r.mapsOnly {
		if n, ok := c.Node().(*ast.RangeStmt); ok && r.isMap(n.X) {
			if st := r.rangeMap(n); st != nil {
				c.Replace(st)
			}
		}
		return true
	}
	switch n := c.Node().(type) {
	case *ast.GoStmt:
		c.Replace(r.goStmt(n))
	case *ast.SendStmt:
		// vsched.SendOn(ch).Send(v): the value is a method argument, so ordinary assignability
		// applies (a concrete type sent on a channel of interface type)
		c.Replace(&ast.ExprStmt{X: &ast.CallExpr{Fun: &ast.SelectorExpr{X: r.call("vsched", "SendOn", n.Chan), Sel: ast.NewIdent("Send")}, Args: []ast.Expr{n.Value}}})
	case *ast.UnaryExpr:
		if n.Op == token.ARROW {
			c.Replace(r.call("vsched", "Recv", n.X))
		}
	case *ast.CallExpr:
		// a call of a method of an object other goroutines share and that is atomic for the
		// scheduler (x/time/rate's limiter keeps its native mutex): the caller may be preempted
		// between two such calls, so each call is preceded by a scheduling point
		if sel, ok := n.Fun.(*ast.SelectorExpr); ok {
			if tv, ok := r.info.Types[sel.X]; ok && tv.Type != nil && tv.Type.String() == "*golang.org/x/time/rate.Limiter" && !r.keep["sync"] {
				sel.X = r.call("vsched", "Pt", sel.X)
			}
		}
		if id, ok := n.Fun.(*ast.Ident); ok && id.Name == "close" && len(n.Args) == 1 {
			if obj := r.info.Uses[id]; obj == nil || obj.Pkg() == nil { // the builtin
				c.Replace(r.call("vsched", "Close", n.Args[0]))
			}
		}
	case *ast.RangeStmt:
		if r.isChan(n.X) {
			c.Replace(r.rangeChan(n))
		}
	case *ast.SelectorExpr:
		if id, ok := n.X.(*ast.Ident); ok {
			if obj, isPkg := r.info.Uses[id].(*types.PkgName); isPkg {
				path := obj.Imported().Path()
				if t, ok := table[path]; ok && !r.keep[path] {
					sh, ok := t[n.Sel.Name]
					if !ok {
						sh, ok = t["*"]
					}
					if ok {
						c.Replace(&ast.SelectorExpr{X: r.shim(sh), Sel: n.Sel})
					}
				}
			}
		}
	}
	return true
}

// go f(a, b)  =>  { _f := f; _a0 := a; _a1 := b; vsched.Go(func() { _f(_a0, _a1) }) }
// (function value and arguments are evaluated at the go statement, as the language requires)
func (r *rw) goStmt(n *ast.GoStmt) ast.Stmt {
	call := n.Call
	var stmts []ast.Stmt
	var fun ast.Expr = call.Fun
	if _, isLit := call.Fun.(*ast.FuncLit); !isLit {
		f := r.fresh("f")
		stmts = append(stmts, define([]ast.Expr{f}, call.Fun))
		fun = f
	}
	var args []ast.Expr
	for _, a := range call.Args {
		t := r.fresh("a")
		stmts = append(stmts, define([]ast.Expr{t}, a))
		args = append(args, t)
	}
	inner := &ast.CallExpr{Fun: fun, Args: args, Ellipsis: call.Ellipsis}
	lit := &ast.FuncLit{Type: &ast.FuncType{Params: &ast.FieldList{}}, Body: &ast.BlockStmt{List: []ast.Stmt{&ast.ExprStmt{X: inner}}}}
	stmts = append(stmts, &ast.ExprStmt{X: r.call("vsched", "Go", lit)})
	return &ast.BlockStmt{List: stmts}
}

// for x := range ch { B }  =>  for { x, _ok := vsched.Recv2(ch); if !_ok { break }; B }
func (r *rw) rangeChan(n *ast.RangeStmt) ast.Stmt {
	ok := r.fresh("ok")
	var key ast.Expr = ast.NewIdent("_")
	if n.Key != nil {
		key = n.Key
	}
	if n.Value != nil {
		fail(r.fset, n.Pos(), "range over channel with two variables")
	}
	var first ast.Stmt
	recv := r.call("vsched", "Recv2", n.X)
	if n.Tok == token.ASSIGN {
		first = &ast.BlockStmt{List: []ast.Stmt{}} // replaced below
		decl := &ast.DeclStmt{Decl: &ast.GenDecl{Tok: token.VAR, Specs: []ast.Spec{&ast.ValueSpec{Names: []*ast.Ident{ok}, Type: ast.NewIdent("bool")}}}}
		asg := &ast.AssignStmt{Lhs: []ast.Expr{key, ok}, Tok: token.ASSIGN, Rhs: []ast.Expr{recv}}
		body := append([]ast.Stmt{decl, asg, breakIfNot(ok)}, n.Body.List...)
		return &ast.ForStmt{Body: &ast.BlockStmt{List: body}}
	}
	first = define([]ast.Expr{key, ok}, recv)
	body := append([]ast.Stmt{first, breakIfNot(ok)}, n.Body.List...)
	return &ast.ForStmt{Body: &ast.BlockStmt{List: body}}
}

func breakIfNot(ok *ast.Ident) ast.Stmt {
	return &ast.IfStmt{Cond: &ast.UnaryExpr{Op: token.NOT, X: ok}, Body: &ast.BlockStmt{List: []ast.Stmt{&ast.BranchStmt{Tok: token.BREAK}}}}
}

// select { case x := <-a: A; case b <- y: B; default: D }  =>
// { _c0 := vsched.RecvCase(a); _c1 := vsched.SendCase(b, y)
//   switch vsched.Select(hasDefault, _c0, _c1) { case 0: x := _c0.V; A  case 1: B  default: D } }
func (r *rw) walkExpr(e ast.Expr) ast.Expr {
	return astutil.Apply(e, r.pre, r.post).(ast.Expr)
}

func (r *rw) walkBody(list []ast.Stmt) []ast.Stmt {
	blk := &ast.BlockStmt{List: append([]ast.Stmt(nil), list...)}
	astutil.Apply(blk, r.pre, r.post)
	return blk.List
}

func (r *rw) selectStmt(n *ast.SelectStmt) ast.Stmt {
	for _, cl := range n.Body.List {
		cc := cl.(*ast.CommClause)
		cc.Body = r.walkBody(cc.Body)
		switch s := cc.Comm.(type) {
		case *ast.SendStmt:
			s.Chan, s.Value = r.walkExpr(s.Chan), r.walkExpr(s.Value)
		case *ast.ExprStmt:
			if u, ok := s.X.(*ast.UnaryExpr); ok && u.Op == token.ARROW {
				u.X = r.walkExpr(u.X)
			}
		case *ast.AssignStmt:
			if u, ok := s.Rhs[0].(*ast.UnaryExpr); ok && u.Op == token.ARROW {
				u.X = r.walkExpr(u.X)
			}
		}
	}
	var pre []ast.Stmt
	var caseIdents []ast.Expr
	var clauses []ast.Stmt
	hasDefault := false
	idx := 0
	for _, cl := range n.Body.List {
		cc := cl.(*ast.CommClause)
		if cc.Comm == nil {
			hasDefault = true
			clauses = append(clauses, &ast.CaseClause{Body: cc.Body})
			continue
		}
		cid := r.fresh("c")
		var body []ast.Stmt
		switch s := cc.Comm.(type) {
		case *ast.SendStmt:
			pre = append(pre, define([]ast.Expr{cid}, &ast.CallExpr{Fun: &ast.SelectorExpr{X: r.call("vsched", "SendOn", s.Chan), Sel: ast.NewIdent("Case")}, Args: []ast.Expr{s.Value}}))
		case *ast.ExprStmt: // case <-ch:
			u, ok := s.X.(*ast.UnaryExpr)
			if !ok || u.Op != token.ARROW {
				fail(r.fset, s.Pos(), "unsupported select case")
				continue
			}
			pre = append(pre, define([]ast.Expr{cid}, r.call("vsched", "RecvCase", u.X)))
		case *ast.AssignStmt: // case v := <-ch / v, ok := <-ch / v = <-ch
			u, ok := s.Rhs[0].(*ast.UnaryExpr)
			if !ok || u.Op != token.ARROW || len(s.Rhs) != 1 {
				fail(r.fset, s.Pos(), "unsupported select case")
				continue
			}
			pre = append(pre, define([]ast.Expr{cid}, r.call("vsched", "RecvCase", u.X)))
			rhs := []ast.Expr{&ast.SelectorExpr{X: cid, Sel: ast.NewIdent("V")}}
			if len(s.Lhs) == 2 {
				rhs = append(rhs, &ast.SelectorExpr{X: cid, Sel: ast.NewIdent("OK")})
			}
			body = append(body, &ast.AssignStmt{Lhs: s.Lhs, Tok: s.Tok, Rhs: rhs})
			if s.Tok == token.DEFINE {
				// keep "declared and not used" away for variables the case body ignores
				for _, l := range s.Lhs {
					if id, ok := l.(*ast.Ident); ok && id.Name != "_" {
						body = append(body, &ast.AssignStmt{Lhs: []ast.Expr{ast.NewIdent("_")}, Tok: token.ASSIGN, Rhs: []ast.Expr{ast.NewIdent(id.Name)}})
					}
				}
			}
		default:
			fail(r.fset, cc.Pos(), "unsupported select case")
			continue
		}
		caseIdents = append(caseIdents, cid)
		body = append(body, cc.Body...)
		clauses = append(clauses, &ast.CaseClause{List: []ast.Expr{&ast.BasicLit{Kind: token.INT, Value: strconv.Itoa(idx)}}, Body: body})
		idx++
	}
	hd := "false"
	if hasDefault {
		hd = "true"
	} else {
		// Select never returns -1 without a default; the clause keeps a select that ends a
		// function a terminating statement
		clauses = append(clauses, &ast.CaseClause{Body: []ast.Stmt{&ast.ExprStmt{X: &ast.CallExpr{Fun: ast.NewIdent("panic"),
			Args: []ast.Expr{&ast.BasicLit{Kind: token.STRING, Value: `"vsched: select without default returned no case"`}}}}}})
	}
	args := append([]ast.Expr{ast.NewIdent(hd)}, caseIdents...)
	sw := &ast.SwitchStmt{Tag: r.call("vsched", "Select", args...), Body: &ast.BlockStmt{List: clauses}}
	return &ast.BlockStmt{List: append(pre, sw)}
}

func main() {
	out := flag.String("out", "", "output directory")
	dir := flag.String("dir", "/verif/mc", "module directory from which packages are resolved")
	keepFlag := flag.String("keep", "golang.org/x/time/rate=sync,golang.org/x/time/rate=select-default", "comma-separated pkg=importpath pairs: selectors of importpath are not redirected inside pkg")
	mapsOnly := flag.Bool("maps", false, "rewrite only range-over-map statements (iteration order owned by the harness)")
	flag.Parse()
	keeps := map[string]map[string]bool{}
	for _, kv := range strings.Split(*keepFlag, ",") {
		if p, ip, ok := strings.Cut(kv, "="); ok {
			if keeps[p] == nil {
				keeps[p] = map[string]bool{}
			}
			keeps[p][ip] = true
		}
	}
	cfg := &packages.Config{
		Mode: packages.NeedName | packages.NeedFiles | packages.NeedCompiledGoFiles | packages.NeedSyntax | packages.NeedTypes | packages.NeedTypesInfo | packages.NeedImports,
		Dir:  *dir,
		Env:  append(os.Environ(), "GOFLAGS=-mod=mod", "GOPROXY=off", "GOSUMDB=off", "GOTOOLCHAIN=local"),
	}
	pkgs, err := packages.Load(cfg, flag.Args()...)
	if err != nil {
		fmt.Fprintln(os.Stderr, "gomcrw: load:", err)
		os.Exit(1)
	}
	replace := map[string]string{}
	nsites := 0
	for _, p := range pkgs {
		if len(p.Errors) > 0 {
			fmt.Fprintln(os.Stderr, "gomcrw: package", p.PkgPath, "has errors:", p.Errors)
			os.Exit(1)
		}
		for i, f := range p.Syntax {
			path := p.CompiledGoFiles[i]
			if strings.HasSuffix(path, "_test.go") {
				continue
			}
			r := &rw{fset: p.Fset, info: p.TypesInfo, file: f, used: map[string]bool{}, keep: keeps[p.PkgPath], mapsOnly: *mapsOnly}
			r.rewriteFile()
			if !r.changed {
				continue
			}
			// comments would end up in odd places after restructuring; keep only what
			// precedes the package clause (build constraints, licence)
			var keep []*ast.CommentGroup
			for _, cg := range f.Comments {
				if cg.End() < f.Package {
					keep = append(keep, cg)
				}
			}
			f.Comments = keep
			for sh := range r.used {
				astutil.AddImport(p.Fset, f, shimBase+sh)
			}
			for name, ipath := range r.imports {
				if _, isTable := table[ipath]; isTable && !astutil.UsesImport(f, ipath) {
					if name == filepath.Base(ipath) {
						astutil.DeleteImport(p.Fset, f, ipath)
					} else {
						astutil.DeleteNamedImport(p.Fset, f, name, ipath)
					}
				}
			}
			var buf bytes.Buffer
			if err := format.Node(&buf, p.Fset, f); err != nil {
				fmt.Fprintln(os.Stderr, "gomcrw: print", path, err)
				os.Exit(1)
			}
			dst := filepath.Join(*out, "rw_"+strings.ReplaceAll(strings.TrimPrefix(p.PkgPath, "github.com/mholt/caddy-l4/"), "/", "_")+"_"+filepath.Base(path))
			old, _ := os.ReadFile(dst)
			if !bytes.Equal(old, buf.Bytes()) {
				if err := os.WriteFile(dst, buf.Bytes(), 0o644); err != nil {
					fmt.Fprintln(os.Stderr, err)
					os.Exit(1)
				}
			}
			replace[path] = dst
			nsites += r.tmp
		}
	}
	if len(unsupported) > 0 {
		for _, u := range unsupported {
			fmt.Println("REWRITE-UNSUPPORTED", u)
		}
		os.Exit(4)
	}
	b, _ := json.Marshal(replace)
	fmt.Println(string(b))
}
