#!/usr/bin/env python3
"""Rewrites the table between the markers <!-- numbers:begin --> / <!-- numbers:end --> in DESIGN.md
from evidence/*.json (the measured values of the last run of each check)."""
import json, os, re
V = os.path.dirname(os.path.dirname(os.path.abspath(__file__)))
rows = ["| check | tier | parts | scenarios | executions | transitions | distinct outcomes | exhaustive | caps | wall |", "|---|---|---|---|---|---|---|---|---|---|"]
for i in range(1, 19):
    cid = "C%02d" % i
    try:
        e = json.load(open(os.path.join(V, "evidence", cid + ".json")))
    except OSError:
        continue
    c = e["coverage"]
    parts = ", ".join(sorted((c.get("parts") or {}).keys())) or "-"
    rows.append("| %s | %s | %s | %s | %s | %s | %s | %s | %s | %.0f s |" % (cid, e.get("tier"), parts, f"{c.get('scenarios', 0):,}", f"{c.get('evaluations', 0):,}", f"{c.get('transitions', 0):,}", f"{c.get('distinct_outcomes', 0):,}", c.get("exhaustive"), ",".join(c.get("caps_hit") or []) or "-", e.get("wall_s", 0)))
p = os.path.join(V, "DESIGN.md")
s = open(p).read()
block = "<!-- numbers:begin -->\n" + "\n".join(rows) + "\n<!-- numbers:end -->"
if "<!-- numbers:begin -->" in s:
    s = re.sub(r"<!-- numbers:begin -->.*?<!-- numbers:end -->", lambda m: block, s, flags=re.S)
else:
    s = s.replace("measured values of the last run. \"Budget\" is the joint deviation budget unless said otherwise.\n", "measured values of the last run. \"Budget\" is the joint deviation budget unless said otherwise.\nThe per-check figures quoted in the paragraphs below date from when each check was first\nwritten; the table is regenerated from the evidence files (`tools/mkdesigntable.py`).\n\n" + block + "\n")
open(p, "w").write(s)
print("\n".join(rows))
