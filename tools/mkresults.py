#!/usr/bin/env python3
"""Regenerates seeded/RESULTS.md from seeded/*/meta.json."""
import json, glob
rows = []
for d in sorted(glob.glob('/verif/seeded/C*/')):
    m = json.load(open(d + 'meta.json'))
    sid = d.rstrip('/').split('/')[-1]
    rows.append((sid, m['summary'], m['needs'], m['check_result']['caught'], m['check_result']['note']))
rounds = {}
for r in rows:
    k = r[0].split('-')[1] if '-' in r[0] else '1'
    y, n = rounds.get(k, (0, 0))
    rounds[k] = (y + (r[3] == 'yes'), n + (r[3] != 'yes'))
out = ["# Independently seeded property-breaking changes\n",
"Each change below was written by a fresh sub-agent that was given only the text of one property and a scratch",
"git worktree of /repo (nothing from /verif); rounds 2 and 3 (`Cnn-2`, `Cnn-3`) were additionally told which files the",
"earlier rounds had changed and asked for a different function and clause. For each one I confirmed myself, in a scratch",
"worktree (`tools/verify_seed`): the patch applies and builds, the repository's whole existing test suite passes with it,",
"the agent's demonstration fails with it and passes without it. Then the change was applied to /repo",
"(`tools/with_patch seeded/<id>/patch.diff ./check <Cnn> quick`), the check run, and /repo reverted. `after-strengthening`",
"means the check as it stood missed the change; the note says what the check lacked and what was added (the check was then",
"run again on the clean tree: no alarm, and on the change: reported).\n",
"Totals: %d changes; %d reported by the check as it stood, %d only after strengthening, %d not reported (%s). Per round: %s.\n" % (
    len(rows), sum(1 for r in rows if r[3] == 'yes'), sum(1 for r in rows if r[3] == 'after-strengthening'),
    sum(1 for r in rows if r[3] == 'no'), ", ".join(r[0] for r in rows if r[3] == 'no') or "none",
    ", ".join("round %s: %d/%d as it stood" % (k, v[0], v[0] + v[1]) for k, v in sorted(rounds.items(), key=lambda kv: int(kv[0])))),
"| seed | change | caught | how |", "|---|---|---|---|"]
for r in rows:
    out.append(("| %s | %s **Needs:** %s | %s | %s |" % r).replace("\n", " "))
open('/verif/seeded/RESULTS.md', 'w').write("\n".join(out) + "\n")
print(out[9])
