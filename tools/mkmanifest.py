#!/usr/bin/env python3
"""Regenerates /verif/MANIFEST.json from tools/manifest_table.json (one entry per claimed property)."""
import json, os
V = os.path.dirname(os.path.dirname(os.path.abspath(__file__)))
props = [json.loads(l)["id"] for l in open(os.path.join(V, "properties.jsonl"))]
tab = json.load(open(os.path.join(V, "tools", "manifest_table.json")))
checks = []
for pid in props:
    if pid not in tab["checks"]:
        continue
    c = tab["checks"][pid]
    checks.append({
        "property_id": pid,
        "quick_cmd": "./check %s quick" % pid,
        "thorough_cmd": "./check %s thorough" % pid,
        "evidence_file": "/verif/evidence/%s.json" % pid,
        "replay_cmd_template": "./check %s --replay {path}" % pid,
        "engine": c.get("engine", "explore"),
        "level_claimed": {"category": c.get("category", "model_checking"), "text": c["text"], "design_ref": c.get("design_ref", "DESIGN.md §5 " + pid)},
        "level_note": c["note"],
        "technique": c["technique"],
    })
na = [{"property_id": p, "reason": tab["not_applicable"].get(p, "check not built yet (work in progress; see DESIGN.md)")} for p in props if p not in tab["checks"]]
m = {
    "version": 1,
    "setup_cmd": tab["setup_cmd"],
    "hooks": tab["hooks"],
    "engines": tab["engines"],
    "checks": checks,
    "notes": tab["notes"],
    "not_applicable": na,
}
json.dump(m, open(os.path.join(V, "MANIFEST.json"), "w"), indent=1)
print("checks:", [c["property_id"] for c in checks], "not_applicable:", [n["property_id"] for n in na])
